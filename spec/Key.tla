--------------------------------- MODULE Key ---------------------------------
(***************************************************************************)
(* C20 class table: TLC enumerates every key of length 1..MaxLen over the   *)
(* byte-class representatives (and str keys over code-point classes), x     *)
(* prefix classes x unicode on/off, evaluates the rule, checks that it is   *)
(* exactly "a server-grade tokenizer reads the key back" on the classes     *)
(* where memcached's tokenizer can tell, and prints the verdict table that  *)
(* the harness concretises with every member of every class.                *)
(***************************************************************************)
EXTENDS KeyRule, TLC, Json

CONSTANTS MaxLen

(* representatives: ordinary, space, tab, CR, LF, VT, FF, NUL, other control, DEL, high bytes *)
ByteReps == {97, 32, 9, 13, 10, 11, 12, 0, 1, 127, 128, 255}
(* code points: the same ASCII classes + Latin-1, NEL, NBSP, 3- and 4-byte UTF-8, Unicode spaces *)
CpReps == {97, 32, 9, 13, 10, 11, 12, 0, 1, 127, 133, 160, 233, 8232, 8364, 12288, 128512}
Prefixes == {<<>>, <<112, 58>>, <<112, 32>>}

Seqs(S, n) == UNION {[1..m -> S] : m \in 1..n}

VARIABLES key, unicode, prefix, done
vars == <<key, unicode, prefix, done>>

Init == /\ key \in [isstr : {FALSE}, u : Seqs(ByteReps, MaxLen)] \cup [isstr : {TRUE}, u : Seqs(CpReps, MaxLen)]
        /\ unicode \in BOOLEAN /\ prefix \in Prefixes /\ done = FALSE
Next == /\ ~done /\ done' = TRUE
        /\ PrintT(ToJson([tag |-> "EXP", isstr |-> key.isstr, u |-> key.u, unicode |-> unicode, prefix |-> prefix,
                          legal |-> Legal(key, unicode, prefix)]))
        /\ UNCHANGED <<key, unicode, prefix>>
Spec == Init /\ [][Next]_vars

(* server-grade view of "get <key>\r\n": the line ends at the first LF, tokens split at spaces *)
W == Wire(key, unicode, prefix)
FirstLine(b) == IF \E i \in DOMAIN b : b[i] = 10
                  THEN SubSeq(b, 1, (CHOOSE i \in DOMAIN b : b[i] = 10 /\ \A j \in 1..(i - 1) : b[j] # 10) - 1)
                  ELSE b
SplitsCleanly == /\ \A i \in DOMAIN W : W[i] \notin {32, 10}          \* one token, one line
                 /\ (W # <<>> => W[Len(W)] # 13)                     \* the server strips a CR before LF
(* sufficiency: a legal key reaches the server as exactly one token of exactly these bytes *)
LegalRoundTrips == (Encodable(key, unicode) /\ Legal(key, unicode, prefix)) => SplitsCleanly
(* necessity where the tokenizer can tell: space / LF / trailing CR / over-long are all illegal *)
UnsplittableIsIllegal == (Encodable(key, unicode) /\ ~SplitsCleanly) => ~Legal(key, unicode, prefix)
=============================================================================
