SPECIFICATION Spec
CONSTANTS
  KeyLen = 1
INVARIANT RoundTrip
INVARIANT Concatenation
INVARIANT Injection
INVARIANT Prefix
CHECK_DEADLOCK FALSE
