------------------------------ MODULE Rendezvous ------------------------------
(***************************************************************************)
(* C11 AS-CODED MODEL of RendezvousHash: `nodes` is a LIST, add_node appends *)
(* if absent, remove_node removes, get_node folds over the list with the     *)
(* `>` / `==` / max(str, str) branches.  The environment picks an arbitrary  *)
(* score for every node (values 0..MaxScore: ties are forced) and any        *)
(* add/remove history.  TLC checks, through the RendezvousRule monitor, that *)
(* the fold equals the set-based rule for every list order reachable and     *)
(* that the disruption lemmas hold across every add/remove.                  *)
(***************************************************************************)
EXTENDS RendezvousRule, TLC, Json

CONSTANTS N, MaxScore, MaxOps, Export

Nodes == 1..N
VARIABLES score, nodes, mon, bad, hist, nops
vars == <<score, nodes, mon, bad, hist, nops>>
view == <<score, nodes, mon, bad, nops>>

(* get_node as coded *)
RECURSIVE Fold(_, _, _)
Fold(l, high, winner) ==
  IF l = <<>> THEN winner
  ELSE LET n == Head(l)  s == score[n] IN
       IF s > high THEN Fold(Tail(l), s, n)
       ELSE IF s = high THEN Fold(Tail(l), high, IF n > winner THEN n ELSE winner)      \* max(str(node), str(winner))
       ELSE Fold(Tail(l), high, winner)
GetNode == Fold(nodes, -1, 0)

Feed2(e1, e2) ==
  LET c1 == ZMonClauses(mon, e1)
      m1 == ZMonEffect(mon, e1)
      c2 == ZMonClauses(m1, e2)
      f(c) == { c[i][1] : i \in { j \in DOMAIN c : ~c[j][2] } }
  IN /\ bad' = bad \cup f(c1) \cup f(c2)
     /\ mon' = ZMonEffect(m1, e2)

Scores(l) == [i \in DOMAIN l |-> <<l[i], 0, score[l[i]]>>]
Observe(l, w) == Feed2([e |-> "rot", nodes |-> l], [e |-> "place", k |-> 1, sc |-> Scores(l), w |-> w])

Init == /\ score \in [Nodes -> 0..MaxScore]
        /\ nodes = <<>> /\ mon = ZMonInit([x |-> 0]) /\ bad = {} /\ hist = <<>> /\ nops = 0

Remove(l, n) == SelectSeq(l, LAMBDA x : x # n)
(* add_node of a node already present is a no-op (`if node not in self.nodes`) *)
AddNode(n) == /\ nops < MaxOps
              /\ nodes' = IF n \in SeqSet(nodes) THEN nodes ELSE Append(nodes, n)
              /\ hist' = Append(hist, <<"add", n>>)
RemoveNode(n) == /\ nops < MaxOps /\ n \in SeqSet(nodes)
                 /\ nodes' = Remove(nodes, n)
                 /\ hist' = Append(hist, <<"remove", n>>)
Next == /\ \E n \in Nodes : AddNode(n) \/ RemoveNode(n)
        /\ nops' = nops + 1
        /\ Observe(nodes', Fold(nodes', -1, 0))
        /\ score' = score
        /\ IF Export THEN PrintT(ToJson([tag |-> "EXP", score |-> score, hist |-> hist'])) ELSE TRUE
Spec == Init /\ [][Next]_vars

MonitorOK == bad = {}
(* direct statement of the main lemma, independent of the monitor *)
FoldIsPlace == GetNode = Place(Scores(nodes))
=============================================================================
