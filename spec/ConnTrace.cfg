SPECIFICATION TraceSpec
CONSTANTS
  MonInit <- CMonInit
  MonClauses <- CMonClauses
  MonEffect <- CMonEffect
  MonFinal <- CMonFinal
CHECK_DEADLOCK FALSE
