SPECIFICATION Spec
CONSTANTS
  Depth = 2
  Start = 3000000
  WireDepth = 1
INVARIANT CasTokenAccepted
INVARIANT CasUnique
INVARIANT ManyAgrees
INVARIANT WireRefinesAbstract
CHECK_DEADLOCK FALSE
