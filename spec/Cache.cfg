SPECIFICATION Spec
CONSTANTS
  Depth = 2
  Start = 3000000
INVARIANT CasTokenAccepted
INVARIANT CasUnique
INVARIANT ManyAgrees
CHECK_DEADLOCK FALSE
