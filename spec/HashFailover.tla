---------------------------- MODULE HashFailover ----------------------------
(***************************************************************************)
(* C13 AS-CODED MODEL (Tier B) of HashClient's failover state machine,      *)
(* spread in the code over _get_client / _retry_dead, _safely_run_func,     *)
(* _mark_failed_server and remove_server.  Per server the client keeps      *)
(*   failed[s] : "none" or [att, age]  (_failed_clients: attempts, time     *)
(*               since failed_time)                                         *)
(*   dead[s]   : -1 or age since death (_dead_clients)                      *)
(*   rot       : the hasher's nodes;  ldc : age of _last_dead_check_time    *)
(* Times are saturating ages (Tick adds 1), so the model is finite and      *)
(* invariant under time translation.  The environment: Tick, servers start  *)
(* / stop failing (OSError-class or MemcacheError-class), key-addressed     *)
(* calls.  Every observable event is fed to the FailoverRule monitor; TLC   *)
(* checks that it never rejects, for all histories.                         *)
(***************************************************************************)
EXTENDS FailoverRule, TLC, Json

CONSTANTS NS, RA, RT, DT, IgnoreExc, Export, MaxDepth,
          MultiKey      \* also explore two-key calls whose keys prefer different servers (set_many / get_many)

H == [n |-> NS, ra |-> RA, rt |-> RT, dt |-> DT, ignore_exc |-> IgnoreExc]
Servers == 1..NS
Keys == 1..NS
CapA == 2 * DT + 1

VARIABLES health,    \* [s -> "up" | "os" | "mc"]  what a contact with s produces now
          failed, dead, rot, ldc,
          mon, bad, hist, depth, xid
vars == <<health, failed, dead, rot, ldc, mon, bad, hist, depth, xid>>
view == <<health, failed, dead, rot, ldc, mon, bad>>

None == [att |-> -1, age |-> 0]
Init == /\ health = [s \in Servers |-> "up"]
        /\ failed = [s \in Servers |-> None] /\ dead = [s \in Servers |-> -1]
        /\ rot = Servers /\ ldc = 0
        /\ mon = FMonInit(H) /\ bad = {} /\ hist = <<>> /\ depth = 0 /\ xid = 1

Sat(a) == IF a >= CapA THEN CapA ELSE a + 1

RECURSIVE FeedAll(_, _, _)
FeedAll(m, b, evs) ==
  IF evs = <<>> THEN [m |-> m, b |-> b]
  ELSE LET ev == Head(evs)
           cl == FMonClauses(m, ev)
           f  == { cl[i][1] : i \in { j \in DOMAIN cl : ~cl[j][2] } }
       IN FeedAll(FMonEffect(m, ev), b \cup f, Tail(evs))
Feed(evs) == LET r == FeedAll(mon, bad, evs) IN mon' = r.m /\ bad' = r.b

Tick == /\ failed' = [s \in Servers |-> IF failed[s].att = -1 THEN None ELSE [failed[s] EXCEPT !.age = Sat(@)]]
        /\ dead' = [s \in Servers |-> IF dead[s] = -1 THEN -1 ELSE Sat(dead[s])]
        /\ ldc' = Sat(ldc)
        /\ Feed(<<[e |-> "tick", d |-> 1]>>)
        /\ hist' = Append(hist, <<"tick">>)
        /\ UNCHANGED <<health, rot, xid>>

SetHealth(s, v) == /\ health[s] # v
                   /\ health' = [health EXCEPT ![s] = v]
                   /\ hist' = Append(hist, <<"health", s, v>>)
                   /\ UNCHANGED <<failed, dead, rot, ldc, mon, bad, xid>>

(*************************** key-addressed calls ***************************)
(* _retry_dead: only when some server is dead and the last check is older than DT *)
Revivable == IF (\E s \in Servers : dead[s] # -1) /\ ldc > DT THEN { s \in Servers : dead[s] # -1 /\ dead[s] > DT } ELSE {}
CheckRuns == (\E s \in Servers : dead[s] # -1) /\ ldc > DT
SetSeq(S) == LET RECURSIVE f(_) f(T) == IF T = {} THEN <<>> ELSE LET x == CHOOSE y \in T : \A z \in T : y <= z IN <<x>> \o f(T \ {x}) IN f(S)

(* _safely_run_func / _safely_run_set_many for the batch of owner o (k = a key of the batch), on the  *)
(* bookkeeping st = [failed, dead, rot, xid]; returns the events, the new bookkeeping and whether the  *)
(* owner's error is to be raised                                                                       *)
RunOwner(st, o, k) ==
  LET f == st.failed[o]
      hv == health[o]
      contact(okk, isos) == [e |-> "contact", s |-> o, k |-> k, ok |-> okk, os |-> isos, x |-> IF okk THEN 0 ELSE st.xid]
  IN IF f.att # -1 /\ f.att < RA /\ ~(f.age > RT)
       THEN [evs |-> <<>>, st |-> st, raises |-> FALSE, x |-> 0]              \* inside the retry window: default value, no contact
       ELSE LET evict == f.att # -1 /\ ~(f.att < RA)                        \* attempts exhausted: remove_server, then contact once more
                rot2 == IF evict THEN st.rot \ {o} ELSE st.rot
                dead2 == IF evict THEN [st.dead EXCEPT ![o] = 0] ELSE st.dead
                f2 == IF evict THEN None ELSE f
                pre == IF evict THEN <<[e |-> "rm", s |-> o]>> ELSE <<>>
            IN IF hv = "up"
                 THEN [evs |-> pre \o <<contact(TRUE, FALSE)>>, raises |-> FALSE, x |-> 0,
                       st |-> [st EXCEPT !.failed = [st.failed EXCEPT ![o] = None], !.rot = rot2, !.dead = dead2]]
                 ELSE IF hv = "mc"
                 THEN [evs |-> pre \o <<contact(FALSE, FALSE)>>, raises |-> TRUE, x |-> st.xid,
                       st |-> [st EXCEPT !.failed = [st.failed EXCEPT ![o] = f2], !.rot = rot2, !.dead = dead2, !.xid = st.xid + 1]]
                 ELSE LET fresh == f2.att = -1
                          evict0 == fresh /\ RA <= 0 /\ o \in rot2              \* retry_attempts = 0: evicted at once
                          f3 == IF fresh THEN (IF RA > 0 THEN [att |-> 0, age |-> 0] ELSE None)
                                         ELSE [att |-> f2.att + 1, age |-> 0]
                      IN [evs |-> pre \o <<contact(FALSE, TRUE)>> \o (IF evict0 THEN <<[e |-> "rm", s |-> o]>> ELSE <<>>),
                          raises |-> TRUE, x |-> st.xid,
                          st |-> [failed |-> [st.failed EXCEPT ![o] = f3],
                                  rot |-> IF evict0 THEN rot2 \ {o} ELSE rot2,
                                  dead |-> IF evict0 THEN [dead2 EXCEPT ![o] = 0] ELSE dead2,
                                  xid |-> st.xid + 1]]

(* the batches of a call, one per owner, in order of first appearance *)
RECURSIVE Owners(_, _, _)
Owners(ks, rot1, seen) ==
  IF ks = <<>> THEN <<>>
  ELSE LET o == Owner(H, Head(ks), rot1) IN
       IF o = 0 \/ o \in seen THEN Owners(Tail(ks), rot1, seen)
       ELSE << <<o, Head(ks)>> >> \o Owners(Tail(ks), rot1, seen \cup {o})

(* run the batches one after the other; without ignore_exc the first error aborts the call *)
RECURSIVE RunAll(_, _, _)
RunAll(st, batches, acc) ==
  IF batches = <<>> THEN [evs |-> acc, st |-> st, raises |-> FALSE, x |-> 0]
  ELSE LET r == RunOwner(st, batches[1][1], batches[1][2]) IN
       IF r.raises /\ ~IgnoreExc THEN [evs |-> acc \o r.evs, st |-> r.st, raises |-> TRUE, x |-> r.x]
       ELSE RunAll(r.st, Tail(batches), acc \o r.evs)

CallKeys(ks) ==
  LET rev == Revivable
      rot1 == rot \cup rev
      dead1 == [s \in Servers |-> IF s \in rev THEN -1 ELSE dead[s]]
      ldc1 == IF CheckRuns THEN 0 ELSE ldc
      adds == [i \in DOMAIN SetSeq(rev) |-> [e |-> "add", s |-> SetSeq(rev)[i]]]
      begin == <<[e |-> "call", keys |-> ks]>> \o adds
      batches == Owners(ks, rot1, {})
      allout == rot1 = {}
      r == RunAll([failed |-> failed, dead |-> dead1, rot |-> rot1, xid |-> xid], batches, <<>>)
      final == IF allout THEN (IF IgnoreExc THEN [e |-> "ret"] ELSE [e |-> "raise", x |-> 0, xs |-> "all"])
               ELSE IF r.raises THEN [e |-> "raise", x |-> r.x, xs |-> "id"] ELSE [e |-> "ret"]
  IN /\ hist' = Append(hist, <<"call">> \o ks)
     /\ UNCHANGED health
     /\ Feed(begin \o r.evs \o <<final>>)
     /\ failed' = r.st.failed /\ dead' = r.st.dead /\ rot' = r.st.rot /\ xid' = r.st.xid /\ ldc' = ldc1

Call(k) == CallKeys(<<k>>)
(* set_many / get_many over keys that prefer different servers *)
CallMany == \E a, b \in Keys : a # b /\ CallKeys(<<a, b>>)

Next == /\ depth < MaxDepth /\ depth' = depth + 1
        /\ \/ Tick
           \/ \E s \in Servers, v \in {"up", "os", "mc"} : SetHealth(s, v)
           \/ \E k \in Keys : Call(k)
           \/ (MultiKey /\ CallMany)
        /\ IF Export /\ depth' = MaxDepth THEN PrintT(ToJson([tag |-> "EXP", hist |-> hist'])) ELSE TRUE
Spec == Init /\ [][Next]_vars

MonitorOK == bad = {}
=============================================================================
