------------------------------ MODULE KeyRule ------------------------------
(***************************************************************************)
(* C20 / C02 contract: which keys are legal, and what is transmitted.      *)
(* A key is a str (sequence of code points) or bytes; it is encoded (ASCII, *)
(* or UTF-8 when unicode keys are enabled), prefixed, and is legal iff the  *)
(* prefixed form is at most 250 bytes and contains no space, tab, CR, LF,   *)
(* VT, FF or NUL.  A str key with a non-ASCII character is illegal unless   *)
(* unicode keys are enabled.  UTF-8 is computed here, independently.        *)
(***************************************************************************)
EXTENDS Naturals, Sequences, FiniteSets

Forbidden == {32, 9, 10, 13, 11, 12, 0}
MaxKey == 250

Utf8(cp) ==
  IF cp < 128 THEN <<cp>>
  ELSE IF cp < 2048 THEN <<192 + (cp \div 64), 128 + (cp % 64)>>
  ELSE IF cp < 65536 THEN <<224 + (cp \div 4096), 128 + ((cp \div 64) % 64), 128 + (cp % 64)>>
  ELSE <<240 + (cp \div 262144), 128 + ((cp \div 4096) % 64), 128 + ((cp \div 64) % 64), 128 + (cp % 64)>>

RECURSIVE Utf8Seq(_)
Utf8Seq(s) == IF s = <<>> THEN <<>> ELSE Utf8(Head(s)) \o Utf8Seq(Tail(s))

IsAscii(s) == \A i \in DOMAIN s : s[i] < 128

(* key: [isstr, u (code points or bytes)], unicode: allow_unicode_keys *)
Encodable(key, unicode) == ~key.isstr \/ unicode \/ IsAscii(key.u)
Enc(key, unicode) == IF key.isstr /\ unicode THEN Utf8Seq(key.u) ELSE key.u
Wire(key, unicode, prefix) == prefix \o Enc(key, unicode)
Clean(b) == \A i \in DOMAIN b : b[i] \notin Forbidden
Legal(key, unicode, prefix) == /\ Encodable(key, unicode)
                               /\ Len(Wire(key, unicode, prefix)) <= MaxKey
                               /\ Clean(Wire(key, unicode, prefix))

(***************************** monitor *************************************)
(* events: [e |-> "key", via, isstr, u, unicode, prefix, verdict, out]      *)
(*   verdict "ok" (out = bytes returned / transmitted) | "accepted" (passed *)
(*   validation, but there was no server to transmit it to) | "illegal"     *)
(*   (MemcacheIllegalInputError) | any other text = some other exception    *)
KMonInit(h) == [n |-> 0]
KMonClauses(m, ev) ==
  LET key == [isstr |-> ev.isstr, u |-> ev.u]
      w == IF Encodable(key, ev.unicode) THEN Wire(key, ev.unicode, ev.prefix) ELSE <<0>>
      inscope == Encodable(key, ev.unicode) => Len(w) > 0          \* prefixed form non-empty
  IN << <<"C20-legal-key-is-accepted", (inscope /\ Legal(key, ev.unicode, ev.prefix)) => ev.verdict \in {"ok", "accepted"}>>,
        <<"C20-accepted-key-is-transmitted-as-prefix-plus-encoding",
              (inscope /\ ev.verdict = "ok" /\ Legal(key, ev.unicode, ev.prefix)) => ev.out = w>>,
        <<"C20-illegal-key-is-rejected", (inscope /\ ~Legal(key, ev.unicode, ev.prefix)) => ev.verdict \notin {"ok", "accepted"}>>,
        <<"C20-rejection-is-MemcacheIllegalInputError",
              (inscope /\ ~Legal(key, ev.unicode, ev.prefix)) => ev.verdict \in {"ok", "accepted", "illegal"}>> >>
KMonEffect(m, ev) == [m EXCEPT !.n = m.n + 1]
KMonFinal(m) == <<>>
=============================================================================
