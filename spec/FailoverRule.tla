---------------------------- MODULE FailoverRule ----------------------------
(***************************************************************************)
(* C13 contract (Tier A) for HashClient failover, as a monitor over what is *)
(* observable at the seams: which server's client is invoked and with what  *)
(* outcome (client_class seam), rotation changes (hasher seam), virtual     *)
(* time, and the outcome of each key-addressed call.                        *)
(*                                                                         *)
(* header: [n, ra, rt, dt, ignore_exc]  (servers 1..n, retry_attempts,      *)
(*          retry_timeout, dead_timeout; rt < dt)                           *)
(* events:                                                                  *)
(*   tick(d)        time passes                                             *)
(*   call(keys)     a key-addressed call begins (keys: key ids)             *)
(*   add(s) rm(s)   the hasher's add_node / remove_node                     *)
(*   contact(s, k, ok, x)  server s's client was invoked for key k;         *)
(*                  ok = it answered; otherwise x = id of the exception it   *)
(*                  raised, os = it was an OSError (connection-level: this is *)
(*                  what "failing" means; other errors only have to escape   *)
(*                  unchanged)                                               *)
(*   ret / raise(x, xs) the call returned / raised: xs = "id": the exception *)
(*                  with id x (a contact's); xs = "all": MemcacheError 'All  *)
(*                  servers seem to be down'; any other text: something else *)
(* Time is kept as AGES (saturating at 2*dt+1), so the monitor is invariant *)
(* under time translation and finite -- the same operators run inside TLC's *)
(* exhaustive exploration of the as-coded model and over real traces.       *)
(*                                                                         *)
(* placement used by the harness and the model: key k prefers servers       *)
(* k, k+1, ... (cyclically); it lives on the first of them in rotation.     *)
(***************************************************************************)
EXTENDS Naturals, Integers, Sequences, FiniteSets

Cap(h) == 2 * h.dt + 1
Pref(h, k, i) == ((k - 1 + i) % h.n) + 1                       \* i-th choice (i = 0..n-1) of key k
Owner(h, k, rot) == IF rot = {} THEN 0
                    ELSE Pref(h, k, CHOOSE i \in 0..(h.n - 1) : Pref(h, k, i) \in rot /\ \A j \in 0..(i - 1) : Pref(h, k, j) \notin rot)

FMonInit(h) ==
  [h |-> h,
   rot |-> 1..h.n,                                  \* servers in rotation
   fa |-> [s \in 1..h.n |-> <<>>],                  \* ages of this server's CONSECUTIVE failing contacts (no answered
                                                    \* contact in between), most recent first
   cf |-> [s \in 1..h.n |-> 0],                     \* consecutive failing contacts (reset by an answered contact)
   out |-> [s \in 1..h.n |-> 0],                    \* age since eviction (meaningful while s \notin rot)
   incall |-> FALSE, keys |-> <<>>, rot0 |-> {},    \* rot0: rotation used for routing in this call
   touched |-> {}, raised |-> {}, routed |-> FALSE,
   answered |-> {}]                                 \* <<server, key>> contacts of this call that were answered

Bump(h, a, d) == IF a + d > Cap(h) THEN Cap(h) ELSE a + d

FMonClauses(m, ev) ==
  LET h == m.h IN
  CASE ev.e = "tick" -> << <<"tick-between-calls", ~m.incall>> >>
    [] ev.e = "call" -> << <<"one-call-at-a-time", ~m.incall>> >>
    [] ev.e = "add" ->
         << <<"add-of-a-server-that-is-out", ev.s \notin m.rot>>,
            <<"add-inside-a-call-before-routing", m.incall /\ ~m.routed>> >>
    [] ev.e = "rm" ->
         << <<"rm-of-a-server-in-rotation", ev.s \in m.rot>>,
            <<"C13-only-a-failing-server-is-taken-out", m.cf[ev.s] >= 1>>,
            <<"C13-not-evicted-by-a-single-failure-when-retries-are-configured", h.ra > 0 => m.cf[ev.s] >= 2>> >>
    [] ev.e = "contact" ->
         << <<"contact-inside-a-call", m.incall>>,
            <<"C13-a-server-that-answered-is-not-sent-the-same-request-again-in-that-call", <<ev.s, ev.k>> \notin m.answered>>,
            <<"C13-call-goes-to-the-server-placement-assigns", ev.s = Owner(h, ev.k, m.rot0)>>,
            <<"C13-at-most-two-contacts-per-retry-timeout-window",
                  (~ev.ok /\ ev.os /\ Len(m.fa[ev.s]) >= 2) => m.fa[ev.s][2] > h.rt>>,
            <<"C13-at-most-retry_attempts-plus-2-contacts-per-dead-timeout-window",
                  (~ev.ok /\ ev.os /\ Len(m.fa[ev.s]) >= h.ra + 2) => m.fa[ev.s][h.ra + 2] > h.dt>> >>
    [] ev.e \in {"ret", "raise"} ->
         << <<"boundary-inside-a-call", m.incall>>,
            <<"C13-nothing-escapes-with-ignore_exc", ev.e = "raise" => ~h.ignore_exc>>,
            <<"C13-only-the-failing-servers-own-error-or-all-servers-down-escapes",
                  ev.e = "raise" => ((ev.xs = "id" /\ ev.x \in m.raised) \/ (ev.xs = "all" /\ m.rot0 = {}))>>,
            <<"C13-no-server-that-did-not-fail-is-bypassed",
                  \A i \in DOMAIN m.keys :
                     LET o == Owner(h, m.keys[i], m.rot0) IN
                     o = 0 \/ o \in m.touched \/ ev.e = "raise"
                       \/ (m.cf[o] >= 1 /\ m.fa[o] # <<>> /\ m.fa[o][1] <= h.rt)>>,
            (* a multi-key read returns the keys of the servers that answered in this call, nothing else (in particular *)
            (* nothing left over from an earlier call's result)                                                        *)
            <<"C13-multi-key-read-returns-exactly-what-the-contacted-servers-answered",
                  (ev.e = "ret" /\ "found" \in DOMAIN ev) =>
                     { ev.found[i] : i \in DOMAIN ev.found } =
                        { m.keys[i] : i \in { j \in DOMAIN m.keys : \E p \in m.answered : p[1] = Owner(h, m.keys[j], m.rot0) } }>>,
            <<"C13-recovery-within-two-dead-timeouts-of-traffic",
                  \A s \in (1..h.n) \ m.rot0 : m.out[s] <= 2 * h.dt>> >>
    [] OTHER -> << <<"known-event", FALSE>> >>

FMonEffect(m, ev) ==
  LET h == m.h IN
  CASE ev.e = "tick" ->
         [m EXCEPT !.fa = [s \in 1..h.n |-> [i \in DOMAIN m.fa[s] |-> Bump(h, m.fa[s][i], ev.d)]],
                   !.out = [s \in 1..h.n |-> Bump(h, m.out[s], ev.d)]]
    [] ev.e = "call" -> [m EXCEPT !.incall = TRUE, !.keys = ev.keys, !.rot0 = m.rot, !.touched = {}, !.raised = {},
                                  !.routed = FALSE, !.answered = {}]
    [] ev.e = "add" -> [m EXCEPT !.rot = m.rot \cup {ev.s}, !.rot0 = IF m.routed THEN m.rot0 ELSE m.rot0 \cup {ev.s}]
    [] ev.e = "rm" -> [m EXCEPT !.rot = m.rot \ {ev.s}, !.out = [m.out EXCEPT ![ev.s] = 0], !.routed = TRUE]
    [] ev.e = "contact" ->
         [m EXCEPT !.touched = m.touched \cup {ev.s}, !.routed = TRUE,
                   !.answered = IF ev.ok THEN m.answered \cup {<<ev.s, ev.k>>} ELSE m.answered,
                   !.raised = IF ev.ok THEN m.raised ELSE m.raised \cup {ev.x},
                   !.cf = [m.cf EXCEPT ![ev.s] = IF ev.ok THEN 0 ELSE IF ~ev.os THEN @ ELSE IF @ < 3 THEN @ + 1 ELSE 3],
                   (* a contact the server ANSWERED -- with a result or with a memcached-level error -- ends the run of   *)
                   (* connection failures: "failing" means unreachable (OSError), and set_many under ignore_exc treats a   *)
                   (* protocol-level error as an answer (pinned by the suite's test_ignore_exec_set_many)                  *)
                   !.fa = IF ev.ok \/ ~ev.os THEN [m.fa EXCEPT ![ev.s] = <<>>]
                          ELSE [m.fa EXCEPT ![ev.s] = SubSeq(<<0>> \o @, 1, IF Len(@) + 1 > h.ra + 2 THEN h.ra + 2 ELSE Len(@) + 1)]]
    [] ev.e \in {"ret", "raise"} -> [m EXCEPT !.incall = FALSE, !.keys = <<>>, !.touched = {}, !.raised = {}]
    [] OTHER -> m
FMonFinal(m) == << <<"trace-ends-between-calls", ~m.incall>> >>
=============================================================================
