--------------------------- MODULE ServerSpecRule ---------------------------
(***************************************************************************)
(* Server addresses (C11: "equivalent spellings of a server address give    *)
(* the same placement"; C13/C19 rely on the same normal form).              *)
(*                                                                         *)
(*   Norm(s)    normalize_server_spec AS CODED, on a string s: a sequence    *)
(*              over the alphabet  h (a host character)  d (a digit)         *)
(*              ":"  "["  "]"  "/"   optionally after the literal "unix:"     *)
(*   Intent(s)  what a WELL-FORMED spelling means:                          *)
(*                host[:port]  [v6][:port]  unix:<path>  /<path>            *)
(*              -> <<"tcp", host without brackets, port or 11211>>           *)
(*                 <<"unix", path>>                                         *)
(* TLC enumerates every string up to MaxLen, checks that the code agrees    *)
(* with the intent on every well-formed spelling (Agree) and that it either *)
(* raises or returns SOMETHING on every other string (Total), and exports   *)
(* each string with the predicted result; the harness concretises the       *)
(* characters and calls the real function.                                  *)
(***************************************************************************)
EXTENDS Naturals, Sequences, FiniteSets

Alpha == {"h", "d", ":", "[", "]", "/"}
DefaultPort == <<"D">>          \* stands for 11211

Has(s, c) == \E i \in DOMAIN s : s[i] = c
LastIdx(s, c) == CHOOSE i \in DOMAIN s : s[i] = c /\ \A j \in (i + 1)..Len(s) : s[j] # c
AllDigits(s) == s # <<>> /\ \A i \in DOMAIN s : s[i] = "d"
RECURSIVE LStrip(_)
LStrip(s) == IF s # <<>> /\ s[1] \in {"[", "]"} THEN LStrip(Tail(s)) ELSE s
RECURSIVE RStrip(_)
RStrip(s) == IF s # <<>> /\ s[Len(s)] \in {"[", "]"} THEN RStrip(SubSeq(s, 1, Len(s) - 1)) ELSE s
Strip(s) == RStrip(LStrip(s))          \* str.strip("[]")

(* as coded; unixp: the string came after the literal prefix "unix:" *)
Norm(unixp, s) ==
  IF unixp THEN <<"unix", s>>
  ELSE IF s # <<>> /\ s[1] = "/" THEN <<"unix", s>>
  ELSE LET noport == ~Has(s, ":") \/ (s # <<>> /\ s[Len(s)] = "]")
           i == IF noport THEN 0 ELSE LastIdx(s, ":")
           host == IF noport THEN s ELSE SubSeq(s, 1, i - 1)
           port == IF noport THEN DefaultPort ELSE SubSeq(s, i + 1, Len(s))
       IN IF ~noport /\ ~AllDigits(port) THEN <<"ValueError">>
          ELSE <<"tcp", IF host # <<>> /\ host[1] = "[" THEN Strip(host) ELSE host, port>>

(* the grammar of well-formed spellings and their meaning *)
IsHost(s) == s # <<>> /\ \A i \in DOMAIN s : s[i] \in {"h", "d"}
IsV6(s) == s # <<>> /\ \A i \in DOMAIN s : s[i] \in {"h", "d", ":"}
IsPath(s) == s # <<>> /\ s[1] = "/"
Bracketed(s) == Len(s) >= 3 /\ s[1] = "[" /\ Has(s, "]") /\
                LET j == LastIdx(s, "]") IN IsV6(SubSeq(s, 2, j - 1)) /\
                   (j = Len(s) \/ (j < Len(s) /\ s[j + 1] = ":" /\ AllDigits(SubSeq(s, j + 2, Len(s)))))
Plain(s) == \/ IsHost(s)
            \/ (Has(s, ":") /\ LET i == LastIdx(s, ":") IN IsHost(SubSeq(s, 1, i - 1)) /\ AllDigits(SubSeq(s, i + 1, Len(s))))
WellFormed(unixp, s) == IF unixp THEN IsPath(s) ELSE IsPath(s) \/ Plain(s) \/ Bracketed(s)
Intent(unixp, s) ==
  IF unixp \/ IsPath(s) THEN <<"unix", s>>
  ELSE IF Bracketed(s)
    THEN LET j == LastIdx(s, "]") IN <<"tcp", SubSeq(s, 2, j - 1), IF j = Len(s) THEN DefaultPort ELSE SubSeq(s, j + 2, Len(s))>>
  ELSE IF Has(s, ":") THEN LET i == LastIdx(s, ":") IN <<"tcp", SubSeq(s, 1, i - 1), SubSeq(s, i + 1, Len(s))>>
  ELSE <<"tcp", s, DefaultPort>>

(******************************* monitor ***********************************)
(* event [e |-> "norm", unixp, s, res]: res = what the real normalize_server_spec returned for the concretised string, *)
(* mapped back to the alphabet: <<"tcp", host, port>> | <<"unix", path>> | <<"ValueError">> | <<"other", ...>>       *)
NMonInit(h) == [n |-> 0]
NMonClauses(m, ev) ==
  << <<"C11-a-well-formed-server-address-normalises-to-what-it-means", WellFormed(ev.unixp, ev.s) => ev.res = Intent(ev.unixp, ev.s)>>,
     <<"C11-any-other-string-is-refused-or-normalised-never-something-else", ev.res[1] \in {"tcp", "unix", "ValueError"}>> >>
NMonEffect(m, ev) == [m EXCEPT !.n = m.n + 1]
NMonFinal(m) == <<>>
=============================================================================
