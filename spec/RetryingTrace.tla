---------------------------- MODULE RetryingTrace ----------------------------
EXTENDS RetryRule, TraceRun
(* header sets arrive as JSON arrays *)
SetOf(s) == { s[i] : i \in DOMAIN s }
TInit(h) == RMonInit([attempts |-> h.attempts, rf |-> SetOf(h.rf), dnr |-> SetOf(h.dnr), delay |-> h.delay])
=============================================================================
