-------------------------------- MODULE Cache --------------------------------
(***************************************************************************)
(* C05 explorer: the abstract cache of CacheRule.tla as a state machine    *)
(* whose environment issues every API operation over a small universe      *)
(* (2 keys, a numeric and a non-numeric value, expiry classes never /      *)
(* relative / already-expired / absolute, noreply on/off, matching and     *)
(* stale cas tokens, clock ticks).  TLC explores all histories up to Depth *)
(* (exhaustively, or randomly with -simulate), checks the cache's own      *)
(* invariants, and prints every history for replay into the real client.   *)
(***************************************************************************)
EXTENDS ClientOps, TLC, Json

CONSTANTS Depth, Start,
          WireDepth     \* the wire-level refinement is evaluated in the states reached by at most this many operations

Keys == {"a", "b"}
V1 == <<49>>          \* "1"  numeric
VX == <<120>>         \* "x"  non-numeric
V27 == <<50, 55>>     \* "27" numeric
Vals == {V1, VX, V27}

VARIABLES c, hist, done
vars == <<c, hist, done>>

Ev(op, k, v, exp, nr, cas, delta, keys, items) ==
  [e |-> "op", op |-> op, k |-> k, v |-> v, exp |-> exp, nr |-> nr, cas |-> cas, delta |-> delta,
   keys |-> keys, items |-> items]

CurCas(k) == IF Has(c, k) THEN c.st[k].cas ELSE 0
Abs2 == c.now + 2

OpSet ==
  {Ev("set", k, v, x, nr, 0, 0, <<>>, <<>>) : k \in Keys, v \in Vals, x \in {0, 2, -1, Abs2}, nr \in BOOLEAN}
  \cup {Ev(op, k, v, x, nr, 0, 0, <<>>, <<>>) : op \in {"add", "replace"}, k \in Keys, v \in {V1, VX}, x \in {0, 2}, nr \in BOOLEAN}
  \cup {Ev(op, k, v, 0, nr, 0, 0, <<>>, <<>>) : op \in {"append", "prepend"}, k \in Keys, v \in {V1, VX}, nr \in BOOLEAN}
  \cup UNION { {Ev("cas", k, v, 0, nr, t, 0, <<>>, <<>>) : v \in {V27, VX}, nr \in BOOLEAN, t \in {CurCas(k), CurCas(k) + 7}} : k \in Keys }
  \cup {Ev(op, k, <<>>, 0, FALSE, 0, 0, <<>>, <<>>) : op \in {"get", "gets"}, k \in Keys}
  \cup {Ev(op, k, <<>>, x, FALSE, 0, 0, <<>>, <<>>) : op \in {"gat", "gats"}, k \in Keys, x \in {0, 2, -1}}
  \cup {Ev(op, "", <<>>, 0, FALSE, 0, 0, ks, <<>>) : op \in {"get_many", "gets_many"}, ks \in {<<"a", "b">>, <<"b">>, <<"a", "a", "b">>}}
  \cup {Ev("delete", k, <<>>, 0, nr, 0, 0, <<>>, <<>>) : k \in Keys, nr \in BOOLEAN}
  \cup {Ev("delete_many", "", <<>>, 0, nr, 0, 0, <<"a", "b">>, <<>>) : nr \in BOOLEAN}
  \cup {Ev(op, k, <<>>, 0, nr, 0, d, <<>>, <<>>) : op \in {"incr", "decr"}, k \in Keys, d \in {1, 30}, nr \in BOOLEAN}
  \cup {Ev("touch", k, <<>>, x, nr, 0, 0, <<>>, <<>>) : k \in Keys, x \in {0, 2, -1}, nr \in BOOLEAN}
  \cup {Ev("flush_all", "", <<>>, 0, nr, 0, 0, <<>>, <<>>) : nr \in BOOLEAN}
  \cup {Ev("set_many", "", <<>>, x, nr, 0, 0, <<>>, << <<"a", V1>>, <<"b", VX>> >>) : x \in {0, 2}, nr \in BOOLEAN}
  \cup {[e |-> "tick", d |-> d] : d \in {1, 2, 3}}

Init == c = CInit([now |-> Start]) /\ hist = <<>> /\ done = FALSE
Step == /\ Len(hist) < Depth
        /\ \E ev \in OpSet : /\ c' = CacheMonEffect(c, ev)
                             /\ hist' = Append(hist, ev)
        /\ done' = done
(* a history of full length is printed from its own (visited) state: once per state in *)
(* exhaustive mode, once per sampled behaviour in -simulate mode                        *)
Finish == /\ Len(hist) = Depth /\ ~done
          /\ PrintT(ToJson([tag |-> "EXP", h |-> hist]))
          /\ done' = TRUE /\ UNCHANGED <<c, hist>>
Next == Step \/ Finish
Spec == Init /\ [][Next]_vars

(************************* the cache's own invariants **********************)
(* a cas token handed out by gets is accepted by an immediately following cas *)
CasTokenAccepted ==
  \A k \in Keys : Live(c, k) =>
     CApply(c, Ev("cas", k, VX, 0, FALSE, GetsRes(c, k).b.n, 0, <<>>, <<>>)).res = B(TRUE)
(* versions are unique among live items *)
CasUnique == \A k1, k2 \in Keys : (Live(c, k1) /\ Live(c, k2) /\ k1 # k2) => c.st[k1].cas # c.st[k2].cas
(* what get returns is what get_many returns *)
(* client tables + faithful server = abstract cache: in every reachable state, for every operation of the   *)
(* alphabet, sending Cmds(ev), letting the server answer and interpreting the replies gives exactly the      *)
(* documented result and the same store (spec/ClientOps.tla)                                                *)
WireRefinesAbstract ==
  (Len(hist) <= WireDepth /\ ~done) =>
  \A ev \in OpSet : ev.e = "op" =>
     LET w == RunWire(c, ev)  a == CApply(c, ev) IN SameRes(w.res, a.res) /\ StoreEq(w.c, a.c)
(* ... and the same for EVERY well-formed state of a bounded shape, reachable at that depth or not: both sides are    *)
(* functions of (state, operation), so agreement on all states is agreement on all histories, of any length.          *)
(* SpecAll starts TLC in each such state (nothing moves); WireRefinesAbstractEverywhere is its invariant.             *)
ItemsAll == [t : {"item"}, v : Vals \cup {<<>>}, fl : {0}, exp : {0, -1, Start - 1, Start, Start + 2, Start + ThirtyDays + 9}, cas : 1..3]
EntryAll == ItemsAll \cup {Absent}
StatesAll == { [st |-> s, now |-> Start, ctr |-> n] :
                 s \in [Keys -> EntryAll] \cup { [k \in {kk} |-> e] : kk \in Keys, e \in EntryAll } \cup { [k \in {} |-> Absent] },
                 n \in {3, 8} }
WellFormed(x) == \A k1, k2 \in DOMAIN x.st : (k1 # k2 /\ x.st[k1].t = "item" /\ x.st[k2].t = "item") => x.st[k1].cas # x.st[k2].cas
InitAll == c \in { x \in StatesAll : WellFormed(x) } /\ hist = <<>> /\ done = FALSE
SpecAll == InitAll /\ [][UNCHANGED vars]_vars
WireRefinesAbstractEverywhere ==
  \A ev \in OpSet : ev.e = "op" =>
     LET w == RunWire(c, ev)  a == CApply(c, ev) IN SameRes(w.res, a.res) /\ StoreEq(w.c, a.c)
ManyAgrees == LET m == ManyRes(c, <<"a", "b">>, FALSE)
              IN \A i \in DOMAIN m : m[i][2] = GetRes(c, m[i][1])
=============================================================================
