------------------------------ MODULE Retrying ------------------------------
(***************************************************************************)
(* C17 -- RetryingClient retries exactly as configured: AS-CODED MODEL.    *)
(*                                                                         *)
(* Shaped like RetryingClient.__init__ / _retry (one action per loop step).*)
(* The model carries the contract monitor of RetryRule.tla (`mon`): every  *)
(* observable event the model emits is fed to it, and TLC checks that the  *)
(* monitor never rejects (MonitorOK) -- i.e. model => contract -- over all *)
(* configurations and all outcome sequences.  With Export = TRUE every     *)
(* complete behaviour is printed as JSON for replay into the real class.   *)
(***************************************************************************)
EXTENDS RetryRule, TLC, Json

CONSTANTS MaxAttempts,      \* configurations explored: attempts \in 0..MaxAttempts
          Export            \* TRUE: print every complete behaviour as JSON

AllClasses == Classes \cup {"NotExc"}
Configs == [attempts : 0..MaxAttempts, rf : SUBSET AllClasses, dnr : SUBSET AllClasses]

VARIABLES cfg,      \* chosen configuration
          pc,       \* "ctor" | "call" | "decide" | "sleep" | "returned" | "raised" | "rejected"
          attempt,  \* number of completed invocations (code's loop index + 1 after a call)
          last,     \* outcome of the latest invocation
          mon,      \* contract monitor state
          bad,      \* clauses the monitor rejected (must stay {})
          hist      \* observable events so far (history variable, hidden by VIEW)
vars == <<cfg, pc, attempt, last, mon, bad, hist>>
view == <<cfg, pc, attempt, last, mon, bad>>

Feed(ev) == LET cl == RMonClauses(mon, ev)
                f  == { cl[i][1] : i \in { j \in DOMAIN cl : ~cl[j][2] } }
            IN /\ bad' = bad \cup f
               /\ mon' = RMonEffect(mon, ev)
               /\ hist' = Append(hist, ev)
Silent == UNCHANGED <<mon, bad, hist>>
Event(e, o, id) == [e |-> e, o |-> o, id |-> id,
                    d |-> IF e = "call" THEN "same-args" ELSE "delay"]

Init == /\ cfg \in Configs
        /\ pc = "ctor" /\ attempt = 0 /\ last = "none" /\ bad = {} /\ hist = <<>>
        /\ mon = RMonInit([attempts |-> cfg.attempts, rf |-> cfg.rf, dnr |-> cfg.dnr, delay |-> "delay"])

(* __init__: attempts < 1; _ensure_tuple_argument; overlap loop *)
CodeAccepts == /\ ~(cfg.attempts < 1)
               /\ \A c \in cfg.rf \cup cfg.dnr : c \in Classes          \* issubclass(arg, Exception)
               /\ ~\E c \in cfg.rf : c \in cfg.dnr
Ctor == /\ pc = "ctor"
        /\ pc' = IF CodeAccepts THEN "call" ELSE "rejected"
        /\ Feed(Event("ctor", IF CodeAccepts THEN "ok" ELSE "rejected", 0))
        /\ UNCHANGED <<cfg, attempt, last>>

(* func(..) inside the try; the outcome's identity is the attempt number *)
Invoke(o) == /\ pc = "call"
             /\ last' = o
             /\ attempt' = attempt + 1
             /\ Feed(Event("call", o, attempt + 1))
             /\ pc' = IF o = "ok" THEN "return" ELSE "decide"
             /\ UNCHANGED cfg

Return == /\ pc = "return"
          /\ pc' = "returned"
          /\ Feed(Event("ret", "ok", attempt))
          /\ UNCHANGED <<cfg, attempt, last>>

(* `if attempt >= self._attempts - 1 or (retry_for and not isinstance) or   *)
(*   (do_not_retry_for and isinstance): raise exc`  -- the code's loop index *)
(* is attempt-1 here because attempt was already incremented.               *)
CodeRaises == \/ (attempt - 1) >= cfg.attempts - 1
              \/ (cfg.rf # {} /\ ~Matches(last, cfg.rf))
              \/ (cfg.dnr # {} /\ Matches(last, cfg.dnr))

Decide == /\ pc = "decide"
          /\ IF CodeRaises
               THEN pc' = "raised" /\ Feed(Event("raise", last, attempt))
               ELSE pc' = "sleep" /\ Silent
          /\ UNCHANGED <<cfg, attempt, last>>

Sleep == /\ pc = "sleep"
         /\ pc' = "call"
         /\ Feed(Event("sleep", "none", 0))
         /\ UNCHANGED <<cfg, attempt, last>>

Terminal == pc \in {"returned", "raised", "rejected"}

Emit == IF Export /\ pc' \in {"returned", "raised", "rejected"}
          THEN PrintT(<<"EXP", ToJson([attempts |-> cfg.attempts, rf |-> cfg.rf, dnr |-> cfg.dnr,
                                      hist |-> hist', final |-> pc'])>>)
          ELSE TRUE

Next == (Ctor \/ (\E o \in Outcomes : Invoke(o)) \/ Return \/ Decide \/ Sleep) /\ Emit

Spec == Init /\ [][Next]_vars

(************************ properties checked by TLC ************************)
MonitorOK == bad = {}                                   \* model => contract, every event
Complete  == Terminal => RMonFinal(mon)[1][2]           \* every finished behaviour is a complete trace
AtMostAttempts == attempt <= cfg.attempts \/ pc \in {"ctor", "rejected"}
(* non-vacuity witnesses: these must be *violated* (reachable) -- checked by a separate cfg *)
NeverRetries == pc # "sleep"
NeverRejects == pc # "rejected"
=============================================================================
