------------------------------ MODULE WireRule ------------------------------
(***************************************************************************)
(* C02 contract: every public call either raises an input error before a   *)
(* single byte is written, or writes bytes that a strict memcached parser   *)
(* (lib/wire.py, which knows nothing about the client) reads as exactly the *)
(* intended command(s) and nothing more.                                    *)
(*                                                                         *)
(* event: [e |-> "call", op, stack, keys (seq of [isstr,u]), unicode,       *)
(*         prefix, nrarg ("none"|"true"|"false"), dnr (default_noreply),    *)
(*         exp, flags, cas, delta (decimal text as the caller's integer     *)
(*         prints, "" when not applicable), badarg (some checked integer    *)
(*         argument is not an integer), data (one descriptor "len:sha" per  *)
(*         key: the bytes the value encodes to), lens (their lengths as     *)
(*         decimal text), outcome ("illegal"|"sent"|"other:<exc>"), nsent   *)
(*         (bytes written), cmds (what the strict parser read), leftover    *)
(*         (bytes it could not complete a command from)]                    *)
(* Numbers travel as decimal text: the protocol's 64-bit ranges exceed      *)
(* TLC's integers; the strict parser has already range-checked them.        *)
(* When hasraw, the event also carries the bytes themselves: raw (what      *)
(* sendall received), vals (the value bytes per key), expb / flagsb / casb  *)
(* / deltab (the integer arguments as decimal bytes); TLC then reads raw    *)
(* with the TLA+ tokenizer of Proto.tla and compares with IntendedB: the    *)
(* verdict does not rest on the Python parser alone.                        *)
(***************************************************************************)
EXTENDS KeyRule, Proto

NoreplyDefaultFalse == {"cas", "incr", "decr"}
EffNoreply(ev) == IF ev.nrarg = "true" THEN TRUE
                  ELSE IF ev.nrarg = "false" THEN FALSE
                  ELSE IF ev.op \in NoreplyDefaultFalse THEN FALSE ELSE ev.dnr

W(ev, i) == Wire(ev.keys[i], ev.unicode, ev.prefix)
KeyLegal(ev, i) == Legal(ev.keys[i], ev.unicode, ev.prefix) /\ W(ev, i) # <<>>
AllLegal(ev) == \A i \in DOMAIN ev.keys : KeyLegal(ev, i)

StoreOps == {"set", "add", "replace", "append", "prepend", "cas", "set_many"}
Verb(op) == IF op = "set_many" THEN "set" ELSE IF op = "delete_many" THEN "delete"
            ELSE IF op = "get_many" THEN "get" ELSE IF op = "gets_many" THEN "gets" ELSE op

(* the command records the strict parser must produce *)
Intended(ev) ==
  LET nr == EffNoreply(ev) IN
  CASE ev.op \in StoreOps ->
         [i \in DOMAIN ev.keys |->
            [verb |-> Verb(ev.op), key |-> W(ev, i), flags |-> ev.flags, exptime |-> ev.exp,
             bytes |-> ev.lens[i], data |-> ev.data[i], noreply |-> nr,
             cas |-> IF ev.op = "cas" THEN ev.cas ELSE ""]]
    [] ev.op \in {"get", "gets", "get_many", "gets_many"} ->
         << [verb |-> Verb(ev.op), keys |-> [i \in DOMAIN ev.keys |-> W(ev, i)], exptime |-> "", noreply |-> FALSE] >>
    [] ev.op \in {"gat", "gats"} ->
         << [verb |-> ev.op, keys |-> [i \in DOMAIN ev.keys |-> W(ev, i)], exptime |-> ev.exp, noreply |-> FALSE] >>
    [] ev.op \in {"delete", "delete_many"} ->
         [i \in DOMAIN ev.keys |-> [verb |-> "delete", key |-> W(ev, i), noreply |-> nr]]
    [] ev.op \in {"incr", "decr"} ->
         << [verb |-> ev.op, key |-> W(ev, 1), delta |-> ev.delta, noreply |-> nr] >>
    [] ev.op = "touch" ->
         << [verb |-> "touch", key |-> W(ev, 1), exptime |-> ev.exp, noreply |-> nr] >>
    [] ev.op = "flush_all" ->
         << [verb |-> "flush_all", delay |-> ev.exp, noreply |-> nr] >>
    [] ev.op = "stats" ->          \* arguments are validated like keys but never prefixed (the event's prefix is empty)
         << [verb |-> "stats", keys |-> [i \in DOMAIN ev.keys |-> W(ev, i)], exptime |-> "", noreply |-> FALSE] >>
    [] ev.op = "cache_memlimit" -> << [verb |-> "cache_memlimit", limit |-> ev.exp, noreply |-> FALSE] >>
    [] ev.op = "version" -> << [verb |-> "version", noreply |-> FALSE] >>
    [] ev.op = "quit" -> << [verb |-> "quit", noreply |-> TRUE] >>
    [] ev.op = "shutdown" -> << [verb |-> "shutdown", graceful |-> ev.graceful, noreply |-> FALSE] >>
    [] OTHER -> << >>

(* the same, in Proto.tla's all-bytes command records *)
IntendedB(ev) ==
  LET nr == EffNoreply(ev) IN
  CASE ev.op \in StoreOps ->
         [i \in DOMAIN ev.keys |->
            [verb |-> Verb(ev.op), key |-> W(ev, i), flags |-> ev.flagsb, exptime |-> ev.expb,
             data |-> ev.vals[i], noreply |-> nr, cas |-> IF ev.op = "cas" THEN ev.casb ELSE <<>>]]
    [] ev.op \in {"get", "gets", "get_many", "gets_many"} ->
         << [verb |-> Verb(ev.op), keys |-> [i \in DOMAIN ev.keys |-> W(ev, i)], exptime |-> <<>>, noreply |-> FALSE] >>
    [] ev.op \in {"gat", "gats"} ->
         << [verb |-> ev.op, keys |-> [i \in DOMAIN ev.keys |-> W(ev, i)], exptime |-> ev.expb, noreply |-> FALSE] >>
    [] ev.op \in {"delete", "delete_many"} ->
         [i \in DOMAIN ev.keys |-> [verb |-> "delete", key |-> W(ev, i), noreply |-> nr]]
    [] ev.op \in {"incr", "decr"} ->
         << [verb |-> ev.op, key |-> W(ev, 1), delta |-> ev.deltab, noreply |-> nr] >>
    [] ev.op = "touch" ->
         << [verb |-> "touch", key |-> W(ev, 1), exptime |-> ev.expb, noreply |-> nr] >>
    [] ev.op = "flush_all" ->
         << [verb |-> "flush_all", delay |-> ev.expb, noreply |-> nr] >>
    [] ev.op = "stats" ->
         << [verb |-> "stats", keys |-> [i \in DOMAIN ev.keys |-> W(ev, i)], exptime |-> <<>>, noreply |-> FALSE] >>
    [] ev.op = "cache_memlimit" -> << [verb |-> "cache_memlimit", limit |-> ev.expb, noreply |-> FALSE] >>
    [] ev.op = "version" -> << [verb |-> "version", noreply |-> FALSE] >>
    [] ev.op = "quit" -> << [verb |-> "quit", noreply |-> TRUE] >>
    [] ev.op = "shutdown" -> << [verb |-> "shutdown", graceful |-> ev.graceful, noreply |-> FALSE] >>
    [] OTHER -> << >>

(* multi-key batches on a HashClient are validated and sent key by key *)
AllOrNothing(ev) == ev.stack \in {"client", "pooled"}

(* a value whose stored form the check does not predict (buffer objects without a serializer): whatever the client makes *)
(* of it, what goes out must still be well-formed commands -- only the exact payload is left open                       *)
Opaque(ev) == "opaque" \in DOMAIN ev /\ ev.opaque

WMonInit(h) == [n |-> 0]
WMonClauses(m, ev) ==
  << <<"C02-outcome-is-input-error-or-sent", ev.outcome \in {"illegal", "sent"}>>,
     <<"C02-input-error-before-a-single-byte-is-written",
           (ev.outcome = "illegal" /\ AllOrNothing(ev)) => ev.nsent = 0>>,
     <<"C02-non-integer-argument-rejected-before-sending", ev.badarg => (ev.outcome = "illegal" /\ ev.nsent = 0)>>,
     <<"C02-illegal-key-never-reaches-the-wire",
           (~ev.badarg /\ ~AllLegal(ev) /\ AllOrNothing(ev)) => (ev.outcome = "illegal" /\ ev.nsent = 0)>>,
     <<"C02-what-is-sent-parses-as-exactly-the-intended-commands",
           (ev.outcome = "sent" /\ ~ev.badarg /\ ~Opaque(ev) /\ AllLegal(ev)) => (ev.cmds = Intended(ev) /\ ev.leftover = 0)>>,
     <<"C02-nothing-unparseable-is-sent",
           (ev.nsent > 0 /\ AllOrNothing(ev)) => (ev.leftover = 0 /\ \A i \in DOMAIN ev.cmds : ev.cmds[i].verb # "PARSE-ERROR")>>,
     <<"C02-the-bytes-sent-tokenize-to-exactly-the-intended-commands",
           (ev.hasraw /\ ev.outcome = "sent" /\ ~ev.badarg /\ ~Opaque(ev) /\ AllLegal(ev))
              => Tokenize(ev.raw) = [cmds |-> IntendedB(ev), left |-> 0]>>,
     <<"C02-the-bytes-sent-tokenize-without-error",
           (ev.hasraw /\ ev.nsent > 0 /\ AllOrNothing(ev))
              => LET t == Tokenize(ev.raw) IN t.left = 0 /\ \A i \in DOMAIN t.cmds : t.cmds[i].verb # "PARSE-ERROR">> >>
WMonEffect(m, ev) == [m EXCEPT !.n = m.n + 1]
WMonFinal(m) == <<>>
=============================================================================
