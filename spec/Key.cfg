SPECIFICATION Spec
CONSTANTS
  MaxLen = 2
INVARIANT LegalRoundTrips
INVARIANT UnsplittableIsIllegal
CHECK_DEADLOCK FALSE
