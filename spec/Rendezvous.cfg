SPECIFICATION Spec
CONSTANTS
  N = 4
  MaxScore = 2
  MaxOps = 6
  Export = FALSE
VIEW view
INVARIANT MonitorOK
INVARIANT FoldIsPlace
CHECK_DEADLOCK FALSE
