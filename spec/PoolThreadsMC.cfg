SPECIFICATION Spec
CONSTANTS
  NT = 2
  MaxSize = 1
  Programs <- Programs2
  WithLock = TRUE
INVARIANT MonitorOK
CHECK_DEADLOCK TRUE
