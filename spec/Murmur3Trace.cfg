SPECIFICATION TraceSpec
CONSTANTS
  MonInit <- HMonInit
  MonClauses <- HMonClauses
  MonEffect <- HMonEffect
  MonFinal <- HMonFinal
CHECK_DEADLOCK FALSE
