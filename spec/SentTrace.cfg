SPECIFICATION TraceSpec
CONSTANTS
  MonInit <- SMonInit
  MonClauses <- SMonClauses
  MonEffect <- SMonEffect
  MonFinal <- SMonFinal
CHECK_DEADLOCK FALSE
