SPECIFICATION Spec
CONSTANTS
  Universe = 3
  MaxSteps = 5
  Export = FALSE
  Vpc = TRUE
  Fixed = TRUE
VIEW view
INVARIANT MonitorOK
CHECK_DEADLOCK FALSE
