SPECIFICATION TraceSpec
CONSTANTS
  MonInit <- NMonInit
  MonClauses <- NMonClauses
  MonEffect <- NMonEffect
  MonFinal <- NMonFinal
CHECK_DEADLOCK FALSE
