------------------------------ MODULE ProtoMC ------------------------------
(***************************************************************************)
(* TLC checks the protocol grammar of Proto.tla over a small alphabet:      *)
(*   RoundTrip      Tokenize(Render(c)) = <<c>> for every command whose key *)
(*                  tokens hold no space / LF                               *)
(*   Concatenation  ... and the same for c followed by any second command   *)
(*                  (no command can swallow or split its successor: data    *)
(*                  blocks with CR LF / protocol text inside included)      *)
(*   Injection      a key with a space or LF anywhere is NOT read back as   *)
(*                  the intended command (KeyRule.Forbidden contains both;  *)
(*                  CR -- even at the end of a line, where only ONE CR is   *)
(*                  stripped --, NUL, tab, VT, FF are read back by the      *)
(*                  grammar itself: the client refuses them for the sake of *)
(*                  laxer servers, C20)                                     *)
(*   Prefix         every proper prefix of Render(c) leaves the reader       *)
(*                  waiting (nothing is read as a complete command early)    *)
(***************************************************************************)
EXTENDS Proto, TLC, Json

CONSTANTS KeyLen      \* longest key in the universe (1: quick, 2: thorough)

KeyAlpha == {97, SP, LF, CR, 0}
DataAlpha == {97, CR, LF, SP}
Seqs(S, lo, hi) == UNION {[1..m -> S] : m \in lo..hi}
Keys == Seqs(KeyAlpha, 1, KeyLen)
Datas == Seqs(DataAlpha, 0, 2) \cup {<<CR, LF, 97>>, <<97, CR, LF>>}
UNums == {<<48>>, <<49, 50>>}
SNums == UNums \cup {<<Minus, 49>>}

Universe ==
  [verb : StorageVerbs \ {"cas"}, key : Keys, flags : UNums, exptime : SNums, data : Datas, noreply : BOOLEAN, cas : {<<>>}]
  \cup [verb : {"cas"}, key : Keys, flags : {<<48>>}, exptime : SNums, data : Datas, noreply : BOOLEAN, cas : UNums]
  \cup [verb : {"get", "gets"}, keys : Seqs(Keys, 1, 2), exptime : {<<>>}, noreply : {FALSE}]
  \cup [verb : {"gat", "gats"}, keys : Seqs(Keys, 1, 2), exptime : SNums, noreply : {FALSE}]
  \cup [verb : {"delete"}, key : Keys, noreply : BOOLEAN]
  \cup [verb : {"incr", "decr"}, key : Keys, delta : UNums, noreply : BOOLEAN]
  \cup [verb : {"touch"}, key : Keys, exptime : SNums, noreply : BOOLEAN]
  \cup [verb : {"flush_all"}, delay : SNums, noreply : BOOLEAN]
  \cup [verb : {"stats"}, keys : Seqs(Keys, 0, 2), exptime : {<<>>}, noreply : {FALSE}]
  \cup [verb : {"cache_memlimit"}, limit : UNums, noreply : BOOLEAN]
  \cup [verb : {"version"}, noreply : {FALSE}] \cup [verb : {"quit"}, noreply : {TRUE}]
  \cup [verb : {"shutdown"}, graceful : BOOLEAN, noreply : {FALSE}]

(* second commands for the concatenation theorem: one of each shape, with clean keys *)
Seconds ==
  { [verb |-> "set", key |-> <<97>>, flags |-> <<48>>, exptime |-> <<48>>, data |-> <<CR, LF>>, noreply |-> TRUE, cas |-> <<>>],
    [verb |-> "get", keys |-> <<<<97>>, <<97, 97>>>>, exptime |-> <<>>, noreply |-> FALSE],
    [verb |-> "delete", key |-> <<97>>, noreply |-> FALSE],
    [verb |-> "flush_all", delay |-> <<48>>, noreply |-> FALSE] }

KeysOf(c) == IF "keys" \in DOMAIN c THEN {c.keys[i] : i \in DOMAIN c.keys}
             ELSE IF "key" \in DOMAIN c THEN {c.key} ELSE {}
SepFree(k) == \A i \in DOMAIN k : k[i] \notin {SP, LF}
CleanCmd(c) == \A k \in KeysOf(c) : SepFree(k)

VARIABLES c, done
Init == c \in Universe /\ done = FALSE
(* every universe member is also exported with its bytes and what the tokenizer reads: the harness feeds the  *)
(* bytes to its Python parser (lib/wire.py, used by the reference server) and requires the same reading       *)
Next == /\ ~done /\ done' = TRUE /\ UNCHANGED c
        /\ PrintT(ToJson([tag |-> "EXP", bytes |-> Render(c), tok |-> Tokenize(Render(c))]))
Spec == Init /\ [][Next]_<<c, done>>

RoundTrip == CleanCmd(c) => Tokenize(Render(c)) = [cmds |-> <<c>>, left |-> 0]
Concatenation == CleanCmd(c) => \A d \in Seconds : /\ Tokenize(Render(c) \o Render(d)) = [cmds |-> <<c, d>>, left |-> 0]
                                                   /\ Tokenize(Render(d) \o Render(c)) = [cmds |-> <<d, c>>, left |-> 0]
Injection == ~CleanCmd(c) => Tokenize(Render(c)).cmds # <<c>>
Prefix == CleanCmd(c) => \A n \in 0..(Len(Render(c)) - 1) :
                            LET t == Tokenize(SubSeq(Render(c), 1, n)) IN t.cmds = <<>> /\ t.left = n
=============================================================================
