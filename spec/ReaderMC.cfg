SPECIFICATION Spec
CONSTANTS
  MaxLen = 6
  RecvSize = 3
  Plans <- PlansQuick
  SegAccumulates = TRUE
INVARIANT ResultsMatchReference
INVARIANT RestIntact
INVARIANT NeverStarves
INVARIANT PrefixOK
CHECK_DEADLOCK FALSE
