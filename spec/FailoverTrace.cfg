SPECIFICATION TraceSpec
CONSTANTS
  MonInit <- FMonInit
  MonClauses <- FMonClauses
  MonEffect <- FMonEffect
  MonFinal <- FMonFinal
CHECK_DEADLOCK FALSE
