--------------------------- MODULE PlacementApa ---------------------------
(***************************************************************************)
(* Rendezvous placement over ARBITRARY natural-number scores, checked        *)
(* symbolically by Apalache (TLC can only enumerate small score ranges):    *)
(* for every score table over N nodes, every rotation and every order of    *)
(* the node list, the winner by (score, then greatest node) exists and is   *)
(* unique, removing a node moves only that node's keys, adding a node moves *)
(* keys only onto it, and the as-coded left-to-right fold of get_node       *)
(* (high_score = -1, ties to the greater node) computes that winner.        *)
(* Nodes are numbered in the order of their names (ties go to the greatest  *)
(* name), exactly as in spec/Rendezvous.tla.                                *)
(*   apalache-mc check --inv=Inv --length=0 PlacementApa.tla                *)
(***************************************************************************)
EXTENDS Integers, FiniteSets, Sequences, Apalache

N == 5
Nodes == 1..N

VARIABLES
  \* @type: Int -> Int;
  score,
  \* @type: Int -> Int;
  perm,
  \* @type: Int;
  len

\* the rotation: the first len entries of perm (pairwise different)
rot == { perm[i] : i \in { j \in Nodes : j <= len } }
\* @type: Seq(Int);
order == SubSeq(MkSeq(N, LAMBDA i: perm[i]), 1, len)

Better(x, y) == score[x] > score[y] \/ (score[x] = score[y] /\ x > y)
IsWinner(S, w) == w \in S /\ \A y \in S : y = w \/ Better(w, y)

\* get_node as coded: (high_score, winner) folded over the node list
\* @type: (Seq(Int)) => Int;
FoldWinner(l) ==
  LET \* @type: (<<Int, Int>>, Int) => <<Int, Int>>;
      step(acc, n) == IF score[n] > acc[1] THEN <<score[n], n>>
                      ELSE IF score[n] = acc[1] /\ n > acc[2] THEN <<acc[1], n>> ELSE acc
  IN ApaFoldSeqLeft(step, <<-1, 0>>, l)[2]

Init == /\ score \in [Nodes -> Nat]
        /\ perm \in [Nodes -> Nodes]
        /\ len \in 0..N
        /\ \A i, j \in Nodes : (i <= len /\ j <= len /\ i # j) => perm[i] # perm[j]
Next == UNCHANGED <<score, perm, len>>

UniqueWinner == rot # {} => \E w \in rot : IsWinner(rot, w) /\ \A v \in rot : IsWinner(rot, v) => v = w
RemovalLocal == \A n \in rot : \A w \in rot : (IsWinner(rot, w) /\ w # n) => IsWinner(rot \ {n}, w)
AdditionLocal == \A n \in Nodes \ rot : \A w \in rot : \A v \in rot \cup {n} :
                    (IsWinner(rot, w) /\ IsWinner(rot \cup {n}, v)) => (v = w \/ v = n)
FoldIsWinner == rot # {} => IsWinner(rot, FoldWinner(order))
Inv == UniqueWinner /\ RemovalLocal /\ AdditionLocal /\ FoldIsWinner
=============================================================================
