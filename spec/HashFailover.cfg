SPECIFICATION Spec
CONSTANTS
  NS = 2
  RA = 1
  RT = 1
  DT = 2
  IgnoreExc = FALSE
  Export = FALSE
  MaxDepth = 12
  MultiKey = TRUE
VIEW view
INVARIANT MonitorOK
CHECK_DEADLOCK FALSE
