SPECIFICATION Spec
CONSTANTS
  NS = 2
  RA = 1
  RT = 1
  DT = 2
  IgnoreExc = FALSE
  Export = FALSE
  MaxDepth = 100000
VIEW view
INVARIANT MonitorOK
CHECK_DEADLOCK FALSE
