------------------------------- MODULE Reader -------------------------------
(***************************************************************************)
(* C03 AS-CODED MODEL of the chunked readers of pymemcache/client/base.py: *)
(* _readline, _readvalue, _readsegment (as fixed) and _recv's EINTR retry,  *)
(* one action per loop iteration / recv().  The environment chooses the     *)
(* stream (all byte strings over a small alphabet up to MaxLen that make    *)
(* the read plan complete), how it is cut into recv() results (every        *)
(* segmentation: each recv returns any non-empty prefix of what is left,    *)
(* up to RecvSize), and where interrupted system calls occur.               *)
(* TLC checks that whatever the cuts, the reads return what ReaderRule's    *)
(* whole-stream reference defines, and that the unread rest is intact.      *)
(***************************************************************************)
EXTENDS ReaderRule, TLC

CONSTANTS MaxLen,      \* longest stream
          RecvSize,    \* bytes per recv() (4096 in the code; small here)
          Plans,       \* set of read plans to explore
          SegAccumulates  \* TRUE: _readsegment as fixed (buf += chunk); FALSE: as originally coded

Alphabet == {13, 10, 69, 120}       \* CR LF 'E' 'x'

Seqs(n) == UNION {[1..m -> Alphabet] : m \in 0..n}

VARIABLES stream, plan,          \* chosen by the environment, constant thereafter
          rem,                   \* bytes not yet delivered by recv()
          todo,                  \* reads still to perform
          buf, acc, lastc, rlen, \* the reader's locals (acc = join(chunks); lastc = last_char)
          pc, results, eintr
vars == <<stream, plan, rem, todo, buf, acc, lastc, rlen, pc, results, eintr>>

Init == /\ plan \in Plans
        /\ stream \in {s \in Seqs(MaxLen) : RefRun(s, plan).ok}
        /\ rem = stream /\ todo = plan /\ buf = <<>> /\ acc = <<>> /\ lastc = 0 /\ rlen = 0
        /\ pc = "next" /\ results = <<>> /\ eintr = 0

(* start the next read of the plan with the carried-over buf *)
StartRead ==
  /\ pc = "next" /\ todo # <<>>
  /\ acc' = <<>> /\ lastc' = 0
  /\ rlen' = IF Head(todo).k = "value" THEN Head(todo).n + 2 ELSE 0
  /\ pc' = CASE Head(todo).k = "line" -> "rl" [] Head(todo).k = "value" -> "rv" [] Head(todo).k = "seg" -> "rs"
  /\ UNCHANGED <<stream, plan, rem, todo, buf, results, eintr>>

Return(res, newbuf) ==
  /\ results' = Append(results, res)
  /\ buf' = newbuf
  /\ todo' = Tail(todo)
  /\ pc' = "next"

(***** _readline: one loop iteration up to (not including) the recv *****)
RL ==
  /\ pc = "rl"
  /\ IF lastc = 13 /\ buf # <<>> /\ buf[1] = 10
       THEN (* CR LF straddles two pieces: strip the CR kept in chunks[-1] *)
            /\ Return(SubSeq(acc, 1, Len(acc) - 1), From(buf, 2))
            /\ UNCHANGED <<acc, lastc>>
       ELSE LET i == Find(buf, CRLF) IN
            IF i # 0
              THEN Return(acc \o SubSeq(buf, 1, i - 1), From(buf, i + 2)) /\ UNCHANGED <<acc, lastc>>
              ELSE /\ acc' = acc \o buf
                   /\ lastc' = IF buf # <<>> THEN buf[Len(buf)] ELSE lastc
                   /\ pc' = "rl_recv"
                   /\ UNCHANGED <<buf, results, todo>>
  /\ UNCHANGED <<stream, plan, rem, rlen, eintr>>

(***** _readvalue *****)
RV ==
  /\ pc = "rv"
  /\ IF rlen - Len(buf) > 0
       THEN /\ rlen' = IF buf # <<>> THEN rlen - Len(buf) ELSE rlen
            /\ acc' = acc \o buf
            /\ pc' = "rv_recv"
            /\ UNCHANGED <<buf, results, todo>>
       ELSE /\ IF rlen = 1
                 THEN Return(SubSeq(acc, 1, Len(acc) - 1), From(buf, rlen + 1))
                 ELSE Return(acc \o SubSeq(buf, 1, rlen - 2), From(buf, rlen + 1))
            /\ UNCHANGED <<acc, rlen>>
  /\ UNCHANGED <<stream, plan, rem, lastc, eintr>>

(***** _readsegment (buf accumulates) *****)
RS ==
  /\ pc = "rs"
  /\ LET tok == Head(todo).tok
         i == Find(buf, tok)
     IN IF i # 0
          THEN Return(SubSeq(buf, 1, i - 1), From(buf, i + Len(tok)))
          ELSE pc' = "rs_recv" /\ UNCHANGED <<buf, results, todo>>
  /\ UNCHANGED <<stream, plan, rem, acc, lastc, rlen, eintr>>

(***** _recv: the environment delivers any non-empty piece, or interrupts the system call *****)
Recv ==
  /\ pc \in {"rl_recv", "rv_recv", "rs_recv"}
  /\ rem # <<>>
  /\ \E n \in 1..(IF Len(rem) < RecvSize THEN Len(rem) ELSE RecvSize) :
       /\ buf' = IF pc = "rs_recv" /\ SegAccumulates THEN buf \o SubSeq(rem, 1, n) ELSE SubSeq(rem, 1, n)
       /\ rem' = From(rem, n + 1)
  /\ pc' = CASE pc = "rl_recv" -> "rl" [] pc = "rv_recv" -> "rv" [] pc = "rs_recv" -> "rs"
  /\ UNCHANGED <<stream, plan, todo, acc, lastc, rlen, results, eintr>>

(* OSError(EINTR) from sock.recv: `while True: try: return sock.recv(size) except OSError as e: if e.errno != EINTR: raise` *)
Eintr ==
  /\ pc \in {"rl_recv", "rv_recv", "rs_recv"} /\ eintr < 2        \* also two interrupts in a row
  /\ eintr' = eintr + 1
  /\ UNCHANGED <<stream, plan, rem, todo, buf, acc, lastc, rlen, pc, results>>

Next == StartRead \/ RL \/ RV \/ RS \/ Recv \/ Eintr
Spec == Init /\ [][Next]_vars

Done == pc = "next" /\ todo = <<>>
(************************************ properties ****************************)
ResultsMatchReference == Done => results = RefRun(stream, plan).results
RestIntact == Done => buf \o rem = RefRun(stream, plan).rest
(* the reader never needs more bytes than the stream holds (would block forever / EOF) *)
NeverStarves == ~(pc \in {"rl_recv", "rv_recv", "rs_recv"} /\ rem = <<>>)
(* prefix property while running: results so far are a prefix of the reference *)
PrefixOK == LET ref == RefRun(stream, plan).results
            IN Len(results) <= Len(ref) /\ results = SubSeq(ref, 1, Len(results))
=============================================================================
