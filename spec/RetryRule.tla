------------------------------ MODULE RetryRule ------------------------------
(***************************************************************************)
(* C17 contract, constant level: the retry decision table and the monitor  *)
(* (MonInit / MonClauses / MonEffect / MonFinal) over observable events    *)
(*    ctor(ok) call(o,id) sleep(d) ret(id) raise(id)                        *)
(* The same monitor is (a) carried by the as-coded model Retrying.tla and  *)
(* checked as an invariant by TLC, (b) run over executions recorded from   *)
(* the real RetryingClient by RetryingTrace.tla.                           *)
(***************************************************************************)
EXTENDS Naturals, Sequences, FiniteSets

(* Exception hierarchy: Base > SubA, SubB ; Other unrelated; all subclasses *)
(* of Exception.  "NotExc" stands for a class that is not an exception.     *)
Classes == {"Base", "SubA", "SubB", "Other"}
Outcomes == Classes \cup {"ok"}

IsSub(c, d) == c = d \/ (d = "Base" /\ c \in {"SubA", "SubB"})
Matches(c, S) == \E d \in S : IsSub(c, d)       \* isinstance(exc, tuple(S))

ValidConfig(c) == /\ c.attempts >= 1
                  /\ c.rf \subseteq Classes /\ c.dnr \subseteq Classes
                  /\ c.rf \cap c.dnr = {}

(* after the n-th invocation ended with exception class e *)
Retryable(c, e) == (c.rf = {} \/ Matches(e, c.rf)) /\ ~Matches(e, c.dnr)
MustRetry(c, n, e) == n < c.attempts /\ Retryable(c, e)

(******************************* monitor ***********************************)
(* header h = [attempts, rf, dnr, delay]; events [e, o, id, d]             *)
RMonInit(h) == [cfg |-> [attempts |-> h.attempts, rf |-> h.rf, dnr |-> h.dnr],
                delay |-> h.delay, phase |-> "new", n |-> 0, lastO |-> "none", lastId |-> 0]

RMonClauses(m, ev) ==
  CASE ev.e = "ctor" ->
         << <<"ctor-accepts-iff-valid", m.phase = "new" /\ ev.o \in {"ok", "rejected"} /\ (ev.o = "ok") = ValidConfig(m.cfg)>> >>
    [] ev.e = "call" ->
         << <<"call-only-at-start-or-after-sleep", m.phase \in {"idle", "slept"}>>,
            <<"at-most-attempts", m.n < m.cfg.attempts>>,
            <<"forwards-caller-arguments", ev.d = "same-args">> >>
    [] ev.e = "sleep" ->
         << <<"sleep-only-after-failed-attempt", m.phase = "called" /\ m.lastO \in Classes>>,
            <<"sleep-only-when-retrying", m.lastO \in Classes => MustRetry(m.cfg, m.n, m.lastO)>>,
            <<"sleep-is-retry-delay", ev.d = m.delay>> >>
    [] ev.e = "ret" ->
         << <<"returns-only-after-success", m.phase = "called" /\ m.lastO = "ok">>,
            <<"returns-result-unchanged", ev.id = m.lastId>> >>
    [] ev.e = "raise" ->
         << <<"raises-only-after-failed-attempt", m.phase = "called" /\ m.lastO \in Classes>>,
            <<"no-early-give-up", m.lastO \in Classes => ~MustRetry(m.cfg, m.n, m.lastO)>>,
            <<"reraises-final-attempt-exception", ev.id = m.lastId>> >>
    [] OTHER -> << <<"known-event", FALSE>> >>

RMonEffect(m, ev) ==
  CASE ev.e = "ctor"  -> [m EXCEPT !.phase = IF ev.o = "ok" THEN "idle" ELSE "done"]
    [] ev.e = "call"  -> [m EXCEPT !.phase = "called", !.n = m.n + 1, !.lastO = ev.o, !.lastId = ev.id]
    [] ev.e = "sleep" -> [m EXCEPT !.phase = "slept"]
    [] ev.e = "ret"   -> [m EXCEPT !.phase = "done"]
    [] ev.e = "raise" -> [m EXCEPT !.phase = "done"]
    [] OTHER -> m

RMonFinal(m) == << <<"trace-complete", m.phase = "done">> >>
=============================================================================
