SPECIFICATION TraceSpec
CONSTANTS
  MonInit <- TMonInit
  MonClauses <- TMonClauses
  MonEffect <- TMonEffect
  MonFinal <- TMonFinal
CHECK_DEADLOCK FALSE
