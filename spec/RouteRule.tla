------------------------------ MODULE RouteRule ------------------------------
(***************************************************************************)
(* C12 contract: every HashClient operation on a key goes to the ONE server *)
(* that placement assigns to its routing key (the key itself, or the        *)
(* explicit server-key of a (server_key, key) pair); multi-key operations   *)
(* send each key to that same server exactly once and merge the answers.    *)
(*                                                                         *)
(* event [e |-> "op", op, items, placed, sent, found, kind]                 *)
(*   items : << <<rk, k>> ... >>  requested keys: routing key id, key id     *)
(*   placed: << <<rk, s>> ... >>  the placement of every routing key of the  *)
(*                               call (the hasher asked by the harness)     *)
(*   sent  : << <<s, k>> ... >>   (server, key) of every command the servers *)
(*                               received in this call                      *)
(*   found : << <<k, v>> ... >>   (reads) key ids returned with value ids    *)
(*   kind  : "write" (v = value id written to every item), "read", "delete",  *)
(*           "other" (routing only: the call changes no value)              *)
(* event [e |-> "servers"]: the server set was changed by the caller.        *)
(* The monitor remembers where each (routing key) was placed and what each  *)
(* (server, key) holds.                                                     *)
(***************************************************************************)
EXTENDS Naturals, Sequences, FiniteSets

SeqSet(s) == { s[i] : i \in DOMAIN s }
PMonInit(h) == [place |-> [r \in {} |-> 0], held |-> [x \in {} |-> 0]]

PlaceOf(ev, rk) == IF \E i \in DOMAIN ev.placed : ev.placed[i][1] = rk
                     THEN (CHOOSE p \in SeqSet(ev.placed) : p[1] = rk)[2] ELSE 0
Count(s, x) == Cardinality({ i \in DOMAIN s : s[i] = x })

PMonClauses(m, ev) ==
  IF ev.e = "servers" THEN << >> ELSE
  LET want == { <<PlaceOf(ev, it[1]), it[2]>> : it \in SeqSet(ev.items) }
  IN << <<"C12-operations-on-healthy-servers-complete", "raised" \in DOMAIN ev => ev.raised = "none">>,
        <<"C12-routing-answer-is-a-function-of-the-routing-key",
              \A i, j \in DOMAIN ev.placed : ev.placed[i][1] = ev.placed[j][1] => ev.placed[i][2] = ev.placed[j][2]>>,
        <<"C12-single-and-multi-key-operations-agree-on-placement",
              \A i \in DOMAIN ev.placed : ev.placed[i][1] \in DOMAIN m.place => m.place[ev.placed[i][1]] = ev.placed[i][2]>>,
        <<"C12-every-key-is-sent-to-its-server", \A w \in want : w \in SeqSet(ev.sent)>>,
        <<"C12-nothing-is-sent-elsewhere", \A x \in SeqSet(ev.sent) : x \in want>>,
        <<"C12-each-key-exactly-once-per-server", \A x \in SeqSet(ev.sent) : Count(ev.sent, x) = 1>>,
        <<"C12-written-then-found",
              ev.kind = "read" =>
                 \A it \in SeqSet(ev.items) :
                    LET sk == <<PlaceOf(ev, it[1]), it[2]>> IN
                    (sk \in DOMAIN m.held /\ m.held[sk] # 0) => <<it[2], m.held[sk]>> \in SeqSet(ev.found)>>,
        <<"C12-multi-key-answers-have-the-shape-of-the-per-key-operation",      \* gets_many = the per-key gets: (value, cas) pairs
              (ev.kind = "read" /\ "shapes" \in DOMAIN ev) =>
                 \A i \in DOMAIN ev.shapes : ev.shapes[i] = (IF ev.withcas THEN 1 ELSE 0)>>,
        <<"C12-nothing-found-that-was-not-written",
              ev.kind = "read" =>
                 \A f \in SeqSet(ev.found) :
                    \E it \in SeqSet(ev.items) : it[2] = f[1] /\
                        LET sk == <<PlaceOf(ev, it[1]), it[2]>> IN sk \notin DOMAIN m.held \/ m.held[sk] = f[2]>> >>

PMonEffect(m, ev) ==
  (* the server set changed: placements and contents may legitimately move *)
  IF ev.e = "servers" THEN PMonInit([x |-> 0]) ELSE
  LET newplace == [r \in DOMAIN m.place \cup { p[1] : p \in SeqSet(ev.placed) } |->
                      IF r \in DOMAIN m.place THEN m.place[r] ELSE PlaceOf(ev, r)]
      touched == { <<PlaceOf(ev, it[1]), it[2]>> : it \in SeqSet(ev.items) }
      newheld == IF ev.kind \in {"read", "other"} THEN m.held       \* "other": touch / stale cas / incr of a missing key
                 ELSE [x \in DOMAIN m.held \cup touched |->
                         IF x \in touched THEN (IF ev.kind = "write" THEN ev.v ELSE 0) ELSE m.held[x]]
  IN [place |-> newplace, held |-> newheld]
PMonFinal(m) == <<>>
=============================================================================
