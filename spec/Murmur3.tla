------------------------------ MODULE Murmur3 ------------------------------
(***************************************************************************)
(* C14: Austin Appleby's MurmurHash3_x86_32, written from the reference    *)
(* definition over 32-bit words represented as <<hi16, lo16>> (TLC integers *)
(* are 32-bit signed, so no intermediate may reach 2^31: products are built *)
(* from 8x16-bit partial products).  Input: a sequence of bytes; seed and   *)
(* result: words.  Independent of pymemcache/client/murmur3.py.             *)
(***************************************************************************)
EXTENDS Naturals, Sequences, Bitwise

M16 == 65536
W(hi, lo) == <<hi, lo>>

XorW(a, b) == <<a[1] ^^ b[1], a[2] ^^ b[2]>>
AddW(a, b) == LET lo == a[2] + b[2] IN <<(a[1] + b[1] + lo \div M16) % M16, lo % M16>>

(* x, y 16-bit: the 32-bit product x*y as a word, via 8x16 partial products *)
Mul16(x, y) ==
  LET p0 == (x % 256) * y            \* < 2^24
      p1 == (x \div 256) * y         \* < 2^24, weight 2^8
      t  == p0 + (p1 % 256) * 256    \* < 2^24 + 2^16
  IN <<(t \div M16 + p1 \div 256) % M16, t % M16>>
(* low 16 bits of x*y *)
Mul16Lo(x, y) == (((x % 256) * y) + (((x \div 256) * y) % 256) * 256) % M16

(* 32x32 -> low 32 bits *)
MulW(a, b) ==
  LET ll == Mul16(a[2], b[2])
      cross == (Mul16Lo(a[1], b[2]) + Mul16Lo(a[2], b[1])) % M16
  IN <<(ll[1] + cross) % M16, ll[2]>>

Pow2(n) == CASE n = 0 -> 1 [] n = 1 -> 2 [] n = 2 -> 4 [] n = 3 -> 8 [] n = 13 -> 8192 [] n = 15 -> 32768
             [] n = 16 -> 65536
(* rotate left by r, 0 < r < 16 *)
Rotl(a, r) == LET p == Pow2(r)  q == Pow2(16) \div p
              IN <<((a[1] * p) % M16) + (a[2] \div q), ((a[2] * p) % M16) + (a[1] \div q)>>
Shr16(a) == <<0, a[1]>>
Shr13(a) == <<a[1] \div 8192, (a[2] \div 8192) + ((a[1] % 8192) * 8)>>

C1 == W(52382, 11601)     \* 0xCC9E2D51
C2 == W(7047, 13715)      \* 0x1B873593
N1 == W(58964, 27492)     \* 0xE6546B64
F1 == W(34283, 51819)     \* 0x85EBCA6B
F2 == W(49842, 44597)     \* 0xC2B2AE35

MixK(k) == MulW(Rotl(MulW(k, C1), 15), C2)
Block(h, k) == AddW(MulW(Rotl(XorW(h, MixK(k)), 13), W(0, 5)), N1)
(* little-endian word from bytes b0..b3 *)
LE(b0, b1, b2, b3) == W(b3 * 256 + b2, b1 * 256 + b0)

RECURSIVE Body(_, _, _)
Body(h, d, i) == IF i + 3 > Len(d) THEN h
                 ELSE Body(Block(h, LE(d[i], d[i + 1], d[i + 2], d[i + 3])), d, i + 4)

TailMix(h, d) ==
  LET n == Len(d)  r == n % 4  b == n - r
      k == CASE r = 0 -> W(0, 0)
             [] r = 1 -> W(0, d[b + 1])
             [] r = 2 -> W(0, d[b + 2] * 256 + d[b + 1])
             [] r = 3 -> W(d[b + 3], d[b + 2] * 256 + d[b + 1])
  IN IF r = 0 THEN h ELSE XorW(h, MixK(k))

Fmix(h0) ==
  LET h1 == XorW(h0, Shr16(h0))
      h2 == MulW(h1, F1)
      h3 == XorW(h2, Shr13(h2))
      h4 == MulW(h3, F2)
  IN XorW(h4, Shr16(h4))

Hash(d, seed) == Fmix(XorW(TailMix(Body(seed, d, 1), d), W(Len(d) \div M16, Len(d) % M16)))

(************************* published test vectors **************************)
S0 == W(0, 0)
ASSUME Hash(<<>>, S0) = W(0, 0)
ASSUME Hash(<<>>, W(0, 1)) = W(20814, 10423)                 \* 0x514E28B7
ASSUME Hash(<<>>, W(65535, 65535)) = W(33265, 28473)         \* 0x81F16F39
ASSUME Hash(<<255, 255, 255, 255>>, S0) = W(30249, 15184)    \* 0x76293B50
ASSUME Hash(<<33, 67, 101, 135>>, S0) = W(62811, 20843)      \* 0xF55B516B
ASSUME Hash(<<33, 67, 101, 135>>, W(20610, 60910)) = W(9058, 63966)   \* seed 0x5082EDEE -> 0x2362F9DE
ASSUME Hash(<<33, 67, 101>>, S0) = W(32330, 34356)           \* 0x7E4A8634
ASSUME Hash(<<33, 67>>, S0) = W(41207, 45178)                \* 0xA0F7B07A
ASSUME Hash(<<33>>, S0) = W(29286, 7412)                     \* 0x72661CF4
ASSUME Hash(<<0, 0, 0, 0>>, S0) = W(9058, 63966)             \* 0x2362F9DE
ASSUME Hash(<<0, 0, 0>>, S0) = W(34288, 46119)               \* 0x85F0B427
ASSUME Hash(<<0, 0>>, S0) = W(12532, 49926)                  \* 0x30F4C306
ASSUME Hash(<<0>>, S0) = W(20814, 10423)                     \* 0x514E28B7
(* "Hello, world!" seed 1234 -> 0xFAF6CDB3 ; seed 4321 -> 0xBF505788 *)
Hello == <<72, 101, 108, 108, 111, 44, 32, 119, 111, 114, 108, 100, 33>>
ASSUME Hash(Hello, W(0, 1234)) = W(64246, 52659)
ASSUME Hash(Hello, W(0, 4321)) = W(48976, 22408)
(* "aaaa" / "aaa" / "aa" / "a" seed 0x9747b28c *)
SA == W(38727, 45708)
ASSUME Hash(<<97, 97, 97, 97>>, SA) = W(23191, 32906)        \* 0x5A97808A
ASSUME Hash(<<97, 97, 97>>, SA) = W(10302, 304)              \* 0x283E0130
ASSUME Hash(<<97, 97>>, SA) = W(23841, 5926)                 \* 0x5D211726
ASSUME Hash(<<97>>, SA) = W(32672, 40614)                    \* 0x7FA09EA6
ASSUME Hash(<<97, 98, 99, 100>>, SA) = W(61511, 34343)       \* 0xF0478627
ASSUME Hash(<<97, 98, 99>>, SA) = W(51274, 25309)            \* 0xC84A62DD
ASSUME Hash(<<97, 98>>, SA) = W(29831, 21906)                \* 0x74875592

(******************************* monitor ***********************************)
(* event [e |-> "hash", d (bytes), s (seed word), h (result word), lat1 (input is Latin-1), *)
(*        again (second evaluation in another process gave the same result)]              *)
HMonInit(h) == [n |-> 0]
HMonClauses(m, ev) ==
  << <<"C14-result-is-a-32-bit-unsigned-integer", ev.h[1] \in 0..65535 /\ ev.h[2] \in 0..65535>>,
     <<"C14-equals-MurmurHash3_x86_32", ev.lat1 => ev.h = Hash(ev.d, ev.s)>>,
     <<"C14-deterministic-across-processes", ev.again>> >>
HMonEffect(m, ev) == [m EXCEPT !.n = m.n + 1]
HMonFinal(m) == <<>>
=============================================================================
