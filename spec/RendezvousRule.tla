--------------------------- MODULE RendezvousRule ---------------------------
(***************************************************************************)
(* C11 contract: placement is a pure function of (key, SET of nodes in      *)
(* rotation): the node with the highest score of "<node>-<key>", ties to    *)
(* the greatest node name; removing a node moves only its keys, adding one  *)
(* moves keys only onto it.                                                 *)
(* Nodes are identified by the RANK of their name in string order (so       *)
(* "greatest name" = greatest rank); scores are 32-bit words <<hi, lo>>.    *)
(*                                                                         *)
(* events                                                                  *)
(*  [e |-> "rot", nodes]   the rotation now consists of these ranks (in the  *)
(*                         hasher's internal order -- must not matter)      *)
(*  [e |-> "place", k, sc, w]  key id k was placed on rank w; sc = sequence  *)
(*                         of <<rank, hi, lo>>: the score of every node in   *)
(*                         rotation for this key (w = 0: no node)            *)
(*  [e |-> "spread", counts, total]  keys owned per node over a corpus        *)
(***************************************************************************)
EXTENDS Naturals, Integers, Sequences, FiniteSets

Less(a, b) == a[1] < b[1] \/ (a[1] = b[1] /\ a[2] < b[2])        \* words
(* node x beats node y *)
Beats(x, y) == Less(<<y[2], y[3]>>, <<x[2], x[3]>>) \/ (x[2] = y[2] /\ x[3] = y[3] /\ x[1] > y[1])
Place(sc) == IF sc = <<>> THEN 0
             ELSE LET S == { sc[i] : i \in DOMAIN sc }
                  IN (CHOOSE x \in S : \A y \in S \ {x} : Beats(x, y))[1]

SeqSet(s) == { s[i] : i \in DOMAIN s }

ZMonInit(h) == [rot |-> {}, prevrot |-> {}, cur |-> [k \in {} |-> 0], prev |-> [k \in {} |-> 0], nrot |-> 0]

ZMonClauses(m, ev) ==
  CASE ev.e = "rot" -> << <<"rot-lists-each-node-once", Cardinality(SeqSet(ev.nodes)) = Len(ev.nodes)>> >>
    [] ev.e = "place" ->
         LET ranks == { ev.sc[i][1] : i \in DOMAIN ev.sc }
             removed == m.prevrot \ m.rot
             added == m.rot \ m.prevrot
             had == ev.k \in DOMAIN m.prev
         IN << <<"scores-cover-the-rotation", ranks = m.rot>>,
               <<"C11-highest-score-wins-ties-to-the-greatest-name", ev.w = Place(ev.sc)>>,
               <<"C11-same-set-same-placement", (ev.k \in DOMAIN m.cur) => ev.w = m.cur[ev.k]>>,
               <<"C11-removal-moves-only-the-removed-nodes-keys",
                     (had /\ added = {} /\ m.nrot > 1) => (ev.w = m.prev[ev.k] \/ m.prev[ev.k] \in removed)>>,
               <<"C11-addition-moves-keys-only-onto-the-new-node",
                     (had /\ removed = {} /\ m.nrot > 1) => (ev.w = m.prev[ev.k] \/ ev.w \in added)>> >>
    [] ev.e = "noop" ->          \* an add_server / remove_server call that was refused: nodes = the rotation afterwards
         << <<"C11-a-refused-change-leaves-the-rotation-as-it-was", SeqSet(ev.nodes) = m.rot /\ Cardinality(SeqSet(ev.nodes)) = Len(ev.nodes)>> >>
    [] ev.e = "spread" ->
         (* keys spread over all servers: every node owns at least total/(4n) keys of a large corpus *)
         << <<"C11-keys-spread-over-all-servers",
               \A i \in DOMAIN ev.counts : ev.counts[i] * 4 * Len(ev.counts) >= ev.total>> >>
    [] OTHER -> << <<"known-event", FALSE>> >>

ZMonEffect(m, ev) ==
  CASE ev.e = "rot" ->
         IF SeqSet(ev.nodes) = m.rot
           THEN m                                   \* same set (possibly another order): placements must not change
           ELSE [m EXCEPT !.prevrot = m.rot, !.rot = SeqSet(ev.nodes), !.prev = m.cur,
                          !.cur = [k \in {} |-> 0], !.nrot = m.nrot + 1]
    [] ev.e = "place" ->
         [m EXCEPT !.cur = [k \in DOMAIN m.cur \cup {ev.k} |-> IF k = ev.k THEN ev.w ELSE m.cur[k]]]
    [] OTHER -> m
ZMonFinal(m) == <<>>
=============================================================================
