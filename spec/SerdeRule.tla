------------------------------ MODULE SerdeRule ------------------------------
(***************************************************************************)
(* C15 contract for PickleSerde / CompressedSerde, over observed facts of   *)
(* one serialize + deserialize round trip:                                  *)
(*  [e |-> "rt", raised, outtype, flags, n, outlen, decok, rawok, eq, ty,   *)
(*   compressed_serde]                                                      *)
(*   raised      "none" or the exception class                              *)
(*   outtype     "bytes" | "ascii-str" | "other": what serialize returned   *)
(*   flags       the integer flags                                          *)
(*   n           length of the uncompressed serialized form                 *)
(*   outlen      length of what was stored                                  *)
(*   decok       decompress(stored form) = the uncompressed form            *)
(*   rawok       stored form = the uncompressed form                        *)
(*   eq, ty      deserialize returned an equal value / of exactly the same  *)
(*               type                                                       *)
(*   eq2         after the caller changed the object it got, deserialising   *)
(*               the same stored form again still returns the stored value   *)
(***************************************************************************)
EXTENDS Naturals, Sequences, FiniteSets

FlagCompressed == 8
HasBit(f, b) == (f \div b) % 2 = 1

SMonInit(h) == [n |-> 0]
SMonClauses(m, ev) ==
  << <<"C15-serialize-and-deserialize-do-not-raise", ev.raised = "none">>,
     <<"C15-serialized-form-is-transmittable", ev.raised = "none" => ev.outtype \in {"bytes", "ascii-str"}>>,
     <<"C15-flags-within-16-bits", ev.raised = "none" => ev.flags < 65536>>,
     <<"C15-round-trip-returns-an-equal-value", ev.raised = "none" => ev.eq>>,
     <<"C15-round-trip-returns-exactly-the-same-type", ev.raised = "none" => ev.ty>>,
     <<"C15-reading-the-stored-form-again-returns-the-stored-value", (ev.raised = "none" /\ ev.eq) => ev.eq2>>,
     <<"C15-marked-compressed-exactly-when-the-compressed-form-is-stored",
           (ev.raised = "none" /\ ev.compressed_serde) => (IF HasBit(ev.flags, FlagCompressed) THEN ev.decok ELSE ev.rawok)>>,
     <<"C15-plain-serde-never-sets-the-compressed-flag",
           (ev.raised = "none" /\ ~ev.compressed_serde) => ~HasBit(ev.flags, FlagCompressed)>>,
     <<"C15-never-stores-a-form-larger-than-the-uncompressed-one",
           (ev.raised = "none" /\ ev.compressed_serde) => ev.outlen <= ev.n>> >>
SMonEffect(m, ev) == [m EXCEPT !.n = m.n + 1]
SMonFinal(m) == <<>>
=============================================================================
