SPECIFICATION TraceSpec
CONSTANTS
  MonInit <- TInit
  MonClauses <- RMonClauses
  MonEffect <- RMonEffect
  MonFinal <- RMonFinal
CHECK_DEADLOCK FALSE
