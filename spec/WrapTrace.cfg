SPECIFICATION TraceSpec
CONSTANTS
  MonInit <- XMonInit
  MonClauses <- XMonClauses
  MonEffect <- XMonEffect
  MonFinal <- XMonFinal
CHECK_DEADLOCK FALSE
