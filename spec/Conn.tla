-------------------------------- MODULE Conn --------------------------------
(***************************************************************************)
(* AS-CODED MODEL (Tier B) of pymemcache.client.base.Client's connection   *)
(* handling: _connect (close old, resolve, per-address create / TCP_NODELAY *)
(* / TLS wrap with fallback, connect timeout, connect, I/O timeout) and    *)
(* the three exchange paths _store_cmd / _fetch_cmd / _misc_cmd with their *)
(* error handlers, one action per socket-module call.  The environment     *)
(* (this module's nondeterminism) picks the operation shape, noreply, and  *)
(* at most one fault per call at any socket call or in any reply.          *)
(*                                                                         *)
(* Every observable event is fed to the contract monitor of ConnRule.tla;  *)
(* TLC checks MonitorOK (= model satisfies C01/C06/C07 clauses) for all    *)
(* call sequences and fault plans within the bounds, and prints, at every  *)
(* call boundary, the program that led there (calls + fault plans + the    *)
(* predicted events) for replay into the real clients.                     *)
(***************************************************************************)
EXTENDS ConnRule, TLC, Json

CONSTANTS MaxCalls,        \* calls per behaviour
          Export,          \* print programs at call boundaries
          Interrupts_On,   \* environment may raise BaseException-class interrupts (C10)
          Fixed,           \* TRUE: the tree with the fix: commits; FALSE: as originally coded
          Pooled,          \* TRUE: the Client lives in a PooledClient's ObjectPool (sequential use: one pooled client)
          Idle             \* pool_idle_timeout (0 = connections never expire); meaningful when Pooled

Shapes == {"store1", "store2", "fetch", "misc1", "misc2", "count1", "quit"}     \* count1: incr / decr
NCmd(sh) == IF sh \in {"store2", "misc2"} THEN 2 ELSE 1
IsFetch(sh) == sh = "fetch"
CanNoreply(sh) == sh \in {"store1", "store2", "misc1", "misc2", "count1"}

Cfgs == [naddr : 0..2, tls : BOOLEAN, nodelay : BOOLEAN, ignore_exc : BOOLEAN]
GoodCfg(c) == (c.naddr = 0 => (~c.tls /\ ~c.nodelay))

VARIABLES cfg, sock, nsock, sst, out, pc, call, cnt, budget, ncalls, addr, cur, err, units,
          age,      \* ticks since the pooled client was released (saturating at Idle + 1)
          mon, bad, hist, evs
vars == <<cfg, sock, nsock, sst, out, pc, call, cnt, budget, ncalls, addr, cur, err, units, age, mon, bad, hist, evs>>
view == <<cfg, sock, nsock, sst, out, pc, call, cnt, budget, ncalls, addr, cur, err, units, age, mon, bad>>

Hdr == [kind |-> IF Pooled THEN "pooled" ELSE "client", tls |-> cfg.tls, ctmo |-> 3, tmo |-> 7,
        idle |-> IF Pooled THEN Idle ELSE 0, ignore_exc |-> cfg.ignore_exc]

FeedFrom(ev, base) ==
            LET cl == CMonClauses(mon, ev)
                f  == { cl[i][1] : i \in { j \in DOMAIN cl : ~cl[j][2] } }
            IN /\ bad' = bad \cup f
               /\ mon' = CMonEffect(mon, ev)
               /\ evs' = Append(base, <<ev.e, IF "fault" \in DOMAIN ev THEN ev.fault ELSE "none">>)
Feed(ev) == FeedFrom(ev, evs)
Silent == UNCHANGED <<mon, bad, evs>>

(* k-th call of a given socket-module function within this public call *)
Bump(op) == cnt' = [cnt EXCEPT ![op] = @ + 1]
K(op) == cnt[op] + 1

OpenSeq == SelectSeq([i \in 1..nsock |-> i], LAMBDA i : sst[i] \in {"created", "connected"})
Pend == [j \in 1..Len(OpenSeq) |-> <<OpenSeq[j], Len(out[OpenSeq[j]]), 0>>]

(* fault kinds the environment may inject at each socket-module function *)
Kinds(op) == IF Interrupts_On THEN {"kbd", "sysexit", "gevent"}
             ELSE CASE op = "getaddrinfo" -> {"gai"}
                    [] op = "socket" -> {"emfile"}
                    [] op = "setsockopt" -> {"oserror"}
                    [] op = "wrap" -> {"ssl"}
                    [] op = "settimeout" -> {"oserror"}
                    [] op = "connect" -> {"refused", "timeout"}
                    [] op = "sendall" -> {"reset", "timeout"}
                    [] op = "recv" -> {"timeout", "reset", "eof"}
                    [] op = "close" -> {"oserror"}
MayFail(op) == IF budget > 0 THEN Kinds(op) ELSE {}
IsIntr(k) == k \in {"kbd", "sysexit", "gevent"}

NoFault == [op |-> "none", k |-> 0, kind |-> "none"]
Counters0 == [op \in {"getaddrinfo", "socket", "setsockopt", "wrap", "settimeout", "connect", "sendall", "recv", "close"} |-> 0]

Init == /\ cfg \in {c \in Cfgs : GoodCfg(c)}
        /\ sock = 0 /\ nsock = 0 /\ sst = <<>> /\ out = <<>>
        /\ pc = "idle" /\ call = [id |-> 0] /\ cnt = Counters0 /\ budget = 0 /\ ncalls = 0
        /\ addr = 0 /\ cur = 0 /\ err = FALSE /\ units = <<>> /\ age = 0
        /\ mon = CMonInit(Hdr)
        /\ bad = {} /\ hist = <<>> /\ evs = <<>>

(* record the injected fault in the current call descriptor (last element of hist) *)
Inject(op, k, kind) == hist' = [hist EXCEPT ![Len(hist)].fault = [op |-> op, k |-> k, kind |-> kind]]
KeepHist == hist' = hist

(***************************** public call begins *************************)
Begin(sh, nr) ==
  /\ pc = "idle" /\ ncalls < MaxCalls
  /\ (nr => CanNoreply(sh) \/ sh = "quit") /\ (sh = "quit" => nr)
  /\ ncalls' = ncalls + 1
  /\ call' = [id |-> ncalls + 1, shape |-> sh, nr |-> nr, ncmd |-> NCmd(sh), need |-> 0, mode |-> "none"]
  /\ cnt' = Counters0 /\ budget' = 1
  /\ hist' = Append(hist, [shape |-> sh, nr |-> nr, fault |-> NoFault, outcome |-> "none", evs |-> <<>>])
  /\ FeedFrom([e |-> "call", c |-> ncalls + 1, op |-> sh, kind |-> IF sh = "quit" THEN "quit" ELSE "data",
               rfault |-> FALSE, ro |-> IsFetch(sh)], <<>>)
  /\ pc' = IF sock = 0 THEN "connect" ELSE IF Pooled /\ Idle > 0 /\ age > Idle THEN "expire" ELSE "send"
  /\ UNCHANGED <<cfg, sock, nsock, sst, out, addr, cur, err, units>>

(* ObjectPool.get: the free client has idled longer than pool_idle_timeout -> after_remove closes it, *)
(* a fresh client is created (no connection yet)                                                    *)
Expire ==
  /\ pc = "expire"
  /\ sst' = [sst EXCEPT ![sock] = "closed"]
  /\ Feed([e |-> "close", s |-> sock, fault |-> "none"])
  /\ sock' = 0 /\ pc' = "connect" /\ Bump("close") /\ KeepHist
  /\ UNCHANGED <<cfg, nsock, out, call, budget, ncalls, addr, cur, err, units>>

(* virtual time between calls *)
Tick ==
  /\ pc = "idle" /\ Pooled /\ Idle > 0 /\ age <= Idle /\ ncalls > 0 /\ ncalls < MaxCalls
  /\ Feed([e |-> "tick", d |-> 1])
  /\ hist' = Append(hist, [shape |-> "tick", nr |-> FALSE, fault |-> NoFault, outcome |-> "none", evs |-> <<>>])
  /\ UNCHANGED <<cfg, sock, nsock, sst, out, pc, call, cnt, budget, ncalls, addr, cur, err, units>>

(********************************* _connect *******************************)
(* self.close() is a no-op here: _connect is only entered with sock = None *)
StartConnect ==
  /\ pc = "connect"
  /\ pc' = IF cfg.naddr = 0 THEN "create" ELSE "resolve"
  /\ addr' = 1 /\ cur' = 0 /\ err' = FALSE
  /\ Silent /\ KeepHist
  /\ UNCHANGED <<cfg, sock, nsock, sst, out, call, cnt, budget, ncalls, units>>

Resolve ==
  /\ pc = "resolve"
  /\ \/ /\ Feed([e |-> "resolve", s |-> 0, fault |-> "none"]) /\ pc' = "create" /\ KeepHist /\ budget' = budget
     \/ \E kd \in MayFail("getaddrinfo") :
          /\ Feed([e |-> "resolve", s |-> 0, fault |-> kd]) /\ Inject("getaddrinfo", K("getaddrinfo"), kd)
          /\ budget' = 0 /\ pc' = "connfail"
  /\ Bump("getaddrinfo")
  /\ UNCHANGED <<cfg, sock, nsock, sst, out, call, ncalls, addr, cur, err, units>>

NewSid == nsock + 1
AddSock(st) == /\ nsock' = nsock + 1
               /\ sst' = Append(sst, st)
               /\ out' = Append(out, <<>>)

(* after a creation-phase failure for this address: next address, or leave the loop *)
NextAddr == IF cfg.naddr > 0 /\ addr < cfg.naddr THEN "create" ELSE "afterloop"

Create ==
  /\ pc = "create"
  /\ \/ /\ AddSock("created") /\ cur' = NewSid
        /\ Feed([e |-> "sock", s |-> NewSid, fault |-> "none"])
        /\ pc' = IF cfg.naddr = 0 THEN "ctmo"
                 ELSE IF cfg.nodelay THEN "nodelay" ELSE IF cfg.tls THEN "wrap" ELSE "break"
        /\ KeepHist /\ budget' = budget /\ err' = err /\ addr' = addr
     \/ \E kd \in MayFail("socket") :
          /\ Feed([e |-> "sock", s |-> 0, fault |-> kd]) /\ Inject("socket", K("socket"), kd)
          /\ budget' = 0 /\ cur' = 0
          /\ IF IsIntr(kd) \/ cfg.naddr = 0
               THEN pc' = "connfail" /\ err' = err /\ addr' = addr     \* not caught by `except Exception` / no loop for UNIX
               ELSE pc' = NextAddr /\ err' = TRUE /\ addr' = addr + 1
          /\ UNCHANGED <<nsock, sst, out>>
  /\ Bump("socket")
  /\ UNCHANGED <<cfg, sock, call, ncalls, units>>

(* failure inside the loop body: the code closes the socket it has and moves on *)
LoopFail(op, kd) ==
  /\ Inject(op, K(op), kd) /\ budget' = 0
  /\ IF IsIntr(kd) THEN pc' = "connfail" /\ err' = err /\ addr' = addr      \* socket `cur` is leaked (as coded)
                   ELSE pc' = "loopclose" /\ err' = TRUE /\ addr' = addr

NoDelay ==
  /\ pc = "nodelay"
  /\ \/ /\ Feed([e |-> "opt", s |-> cur, fault |-> "none"]) /\ pc' = (IF cfg.tls THEN "wrap" ELSE "break")
        /\ KeepHist /\ budget' = budget /\ err' = err /\ addr' = addr
     \/ \E kd \in MayFail("setsockopt") : Feed([e |-> "opt", s |-> cur, fault |-> kd]) /\ LoopFail("setsockopt", kd)
  /\ Bump("setsockopt")
  /\ UNCHANGED <<cfg, sock, nsock, sst, out, call, ncalls, cur, units>>

Wrap ==
  /\ pc = "wrap"
  /\ \/ /\ nsock' = nsock + 1
        /\ sst' = Append([sst EXCEPT ![cur] = "detached"], "created")
        /\ out' = Append(out, <<>>)
        /\ cur' = NewSid
        /\ Feed([e |-> "wrap", s |-> cur, w |-> NewSid, fault |-> "none"])
        /\ pc' = "break" /\ KeepHist /\ budget' = budget /\ err' = err /\ addr' = addr
     \/ \E kd \in MayFail("wrap") :
          /\ Feed([e |-> "wrap", s |-> cur, w |-> 0, fault |-> kd]) /\ LoopFail("wrap", kd)
          /\ UNCHANGED <<nsock, sst, out, cur>>
  /\ Bump("wrap")
  /\ UNCHANGED <<cfg, sock, call, ncalls, units>>

(* `if sock is not None: sock.close(); sock = None` in the loop's except clause *)
LoopClose ==
  /\ pc = "loopclose"
  /\ sst' = [sst EXCEPT ![cur] = "closed"]
  /\ Feed([e |-> "close", s |-> cur, fault |-> "none"])
  /\ cur' = 0 /\ addr' = addr + 1
  /\ pc' = NextAddr
  /\ Bump("close") /\ KeepHist
  /\ UNCHANGED <<cfg, sock, nsock, out, call, budget, ncalls, err, units>>

(* `else: break` -- the fix: commit clears the recorded error here *)
Break ==
  /\ pc = "break"
  /\ err' = IF Fixed THEN FALSE ELSE err
  /\ pc' = "afterloop"
  /\ Silent /\ KeepHist
  /\ UNCHANGED <<cfg, sock, nsock, sst, out, call, cnt, budget, ncalls, addr, cur, units>>

(* `if error is not None: raise error` *)
AfterLoop ==
  /\ pc = "afterloop"
  /\ pc' = IF err THEN "connfail" ELSE "ctmo"
  /\ Silent /\ KeepHist
  /\ UNCHANGED <<cfg, sock, nsock, sst, out, call, cnt, budget, ncalls, addr, cur, err, units>>

(* try: settimeout(connect_timeout); connect; settimeout(timeout)  except Exception: sock.close(); raise *)
TryFail(op, kd) ==
  /\ Inject(op, K(op), kd) /\ budget' = 0
  /\ pc' = IF IsIntr(kd) THEN "connfail" ELSE "tryclose"

CTmo ==
  /\ pc = "ctmo"
  /\ \/ Feed([e |-> "tmo", s |-> cur, v |-> 3, fault |-> "none"]) /\ pc' = "doconnect" /\ KeepHist /\ budget' = budget
     \/ \E kd \in MayFail("settimeout") : Feed([e |-> "tmo", s |-> cur, v |-> 3, fault |-> kd]) /\ TryFail("settimeout", kd)
  /\ Bump("settimeout")
  /\ UNCHANGED <<cfg, sock, nsock, sst, out, call, ncalls, addr, cur, err, units>>

DoConnect ==
  /\ pc = "doconnect"
  /\ \/ /\ Feed([e |-> "connect", s |-> cur, tmo |-> 3, srv |-> "srv", fault |-> "none"])
        /\ sst' = [sst EXCEPT ![cur] = "connected"]
        /\ pc' = "iotmo" /\ KeepHist /\ budget' = budget
     \/ \E kd \in MayFail("connect") :
          /\ Feed([e |-> "connect", s |-> cur, tmo |-> 3, srv |-> "srv", fault |-> kd]) /\ TryFail("connect", kd)
          /\ sst' = sst
  /\ Bump("connect")
  /\ UNCHANGED <<cfg, sock, nsock, out, call, ncalls, addr, cur, err, units>>

IOTmo ==
  /\ pc = "iotmo"
  /\ \/ /\ Feed([e |-> "tmo", s |-> cur, v |-> 7, fault |-> "none"])
        /\ sock' = cur /\ pc' = "send" /\ KeepHist /\ budget' = budget
     \/ \E kd \in MayFail("settimeout") :
          /\ Feed([e |-> "tmo", s |-> cur, v |-> 7, fault |-> kd]) /\ TryFail("settimeout", kd) /\ sock' = sock
  /\ Bump("settimeout")
  /\ UNCHANGED <<cfg, nsock, sst, out, call, ncalls, addr, cur, err, units>>

TryClose ==
  /\ pc = "tryclose"
  /\ sst' = [sst EXCEPT ![cur] = "closed"]
  /\ Feed([e |-> "close", s |-> cur, fault |-> "none"])
  /\ pc' = "connfail" /\ Bump("close") /\ KeepHist
  /\ UNCHANGED <<cfg, sock, nsock, out, call, budget, ncalls, addr, cur, err, units>>

(* _connect raised.  _store_cmd/_misc_cmd call it outside their try (the error propagates as is); *)
(* _fetch_cmd calls it inside (close() is a no-op since sock is None; ignore_exc turns it into {}) *)
ConnFail ==
  /\ pc = "connfail"
  /\ pc' = "finish"
  /\ call' = [call EXCEPT !.mode = IF IsFetch(call.shape) /\ cfg.ignore_exc /\ ~IsIntr(hist[Len(hist)].fault.kind)
                                     THEN "ret" ELSE "raise"]
  /\ Silent /\ KeepHist
  /\ UNCHANGED <<cfg, sock, nsock, sst, out, cnt, budget, ncalls, addr, cur, err, units>>

(******************************** exchange ********************************)
(* reply units the server queues for this call: one per command that expects a reply; *)
(* the environment may replace one unit by an error line or garbage (reply fault)      *)
UnitKinds == {"ok", "error", "garbage"}
Send ==
  /\ pc = "send"
  /\ \/ \E rf \in (IF budget > 0 /\ ~call.nr /\ ~Interrupts_On THEN {0} \cup (1..call.ncmd) ELSE {0}) :
        \E rk \in (IF rf = 0 THEN {"ok"} ELSE {"error", "garbage"}) :
          /\ units' = IF call.nr THEN <<>> ELSE [i \in 1..call.ncmd |-> IF i = rf THEN rk ELSE "ok"]
          /\ out' = [out EXCEPT ![sock] = @ \o (IF call.nr THEN <<>> ELSE [i \in 1..call.ncmd |-> call.id])]
          /\ Feed([e |-> "send", s |-> sock, c |-> call.id, tmo |-> 7, ncmd |-> call.ncmd,
                   nrep |-> IF call.nr THEN 0 ELSE call.ncmd, nerr |-> IF rf = 0 THEN 0 ELSE 1, fault |-> "none"])
          /\ IF rf = 0 THEN KeepHist /\ budget' = budget
                       ELSE Inject("reply", rf - 1, rk) /\ budget' = 0
          /\ call' = [call EXCEPT !.need = IF call.nr THEN 0 ELSE call.ncmd]
          /\ pc' = IF call.nr THEN "done" ELSE "recv"
     \/ \E kd \in MayFail("sendall") :
          (* an interrupt surfaces after the bytes are out: the server answers *)
          /\ out' = IF IsIntr(kd) /\ ~call.nr THEN [out EXCEPT ![sock] = @ \o [i \in 1..call.ncmd |-> call.id]] ELSE out
          /\ Feed([e |-> "send", s |-> sock, c |-> call.id, tmo |-> 7, ncmd |-> IF IsIntr(kd) THEN call.ncmd ELSE 0,
                   nrep |-> IF IsIntr(kd) /\ ~call.nr THEN call.ncmd ELSE 0, nerr |-> 0, fault |-> kd])
          /\ Inject("sendall", K("sendall"), kd) /\ budget' = 0
          /\ units' = units /\ call' = call
          /\ pc' = "handler"
  /\ Bump("sendall")
  /\ UNCHANGED <<cfg, sock, nsock, sst, ncalls, addr, cur, err>>

(* the reply-fault flag travels in the call event in real traces; in the model the monitor's   *)
(* rfault is raised here through nerr-free means: we mark it when the faulty unit is consumed. *)
Recv ==
  /\ pc = "recv" /\ call.need > 0
  /\ LET idx == call.ncmd - call.need + 1
         uk  == units[idx]
     IN \/ /\ Feed([e |-> "recv", s |-> sock, c |-> call.id, tmo |-> 7, n |-> 1, own |-> <<Head(out[sock])>>, fault |-> "none"])
           /\ out' = [out EXCEPT ![sock] = Tail(@)]
           /\ call' = [call EXCEPT !.need = @ - 1]
           /\ pc' = IF uk = "error" \/ (uk = "garbage" /\ call.shape \notin {"misc1", "misc2", "count1"})
                      THEN "handler"                                   \* _raise_errors / MemcacheUnknownError
                      ELSE IF uk = "garbage" /\ call.shape = "count1"
                      THEN "valerr"                                    \* int(<garbage>) raises ValueError after the exchange
                      ELSE IF call.need = 1 THEN "done" ELSE "recv"
           /\ KeepHist /\ budget' = budget
        \/ \E kd \in MayFail("recv") :
             /\ Feed([e |-> "recv", s |-> sock, c |-> call.id, tmo |-> 7, n |-> 0, own |-> <<>>, fault |-> kd])
             /\ Inject("recv", K("recv"), kd) /\ budget' = 0
             /\ pc' = "handler" /\ out' = out /\ call' = call
  /\ Bump("recv")
  /\ UNCHANGED <<cfg, sock, nsock, sst, ncalls, addr, cur, err, units>>

(* except (Base)Exception: self.close(); [fetch + ignore_exc: return {}]; raise *)
HandlerCloses == Fixed \/ ~IsIntr(hist[Len(hist)].fault.kind)
Handler ==
  /\ pc = "handler"
  /\ IF HandlerCloses
       THEN /\ sst' = [sst EXCEPT ![sock] = "closed"]
            /\ Feed([e |-> "close", s |-> sock, fault |-> "none"])
            /\ sock' = 0 /\ Bump("close")
       ELSE /\ Silent /\ UNCHANGED <<sst, sock, cnt>>
  /\ call' = [call EXCEPT !.mode = IF IsFetch(call.shape) /\ cfg.ignore_exc /\ ~IsIntr(hist[Len(hist)].fault.kind)
                                     THEN "ret" ELSE "raise"]
  /\ pc' = "finish" /\ KeepHist
  /\ UNCHANGED <<cfg, nsock, out, budget, ncalls, addr, cur, err, units>>

(* incr/decr: the reply line is not a number: ValueError is raised OUTSIDE the exchange's try block -- a plain *)
(* Client keeps its (in-sync) connection; a pool destroys the client on any exception, which closes it        *)
ValErr ==
  /\ pc = "valerr"
  /\ IF Pooled
       THEN /\ sst' = [sst EXCEPT ![sock] = "closed"]
            /\ Feed([e |-> "close", s |-> sock, fault |-> "none"])
            /\ sock' = 0 /\ Bump("close")
       ELSE /\ Silent /\ UNCHANGED <<sst, sock, cnt>>
  /\ call' = [call EXCEPT !.mode = "raise"]
  /\ pc' = "finish" /\ KeepHist
  /\ UNCHANGED <<cfg, nsock, out, budget, ncalls, addr, cur, err, units>>

(* all replies read (or noreply): quit closes the connection, everything else returns *)
Done ==
  /\ pc = "done"
  /\ IF call.shape = "quit"
       THEN /\ sst' = [sst EXCEPT ![sock] = "closed"]
            /\ Feed([e |-> "close", s |-> sock, fault |-> "none"])
            /\ sock' = 0 /\ Bump("close")
       ELSE /\ Silent /\ UNCHANGED <<sst, sock, cnt>>
  /\ call' = [call EXCEPT !.mode = "ret"]
  /\ pc' = "finish" /\ KeepHist
  /\ UNCHANGED <<cfg, nsock, out, budget, ncalls, addr, cur, err, units>>

Finish ==
  /\ pc = "finish"
  /\ LET rfaulted == hist[Len(hist)].fault.op = "reply"
         shape == IF call.mode = "ret" /\ hist[Len(hist)].fault.op # "none" /\ IsFetch(call.shape) THEN "miss" ELSE "other"
         ev == IF call.mode = "ret"
                 THEN [e |-> "ret", c |-> call.id, pend |-> Pend, used |-> 0, shape |-> shape]
                 ELSE [e |-> "raise", c |-> call.id, pend |-> Pend, used |-> 0,
                       x |-> IF IsIntr(hist[Len(hist)].fault.kind) THEN "base" ELSE "exc"]
         (* the call event of a real trace announces reply faults up front; the model knows only now *)
         m2 == [mon EXCEPT !.rfault = mon.rfault \/ rfaulted]
         cl == CMonClauses(m2, ev)
         f  == { cl[i][1] : i \in { j \in DOMAIN cl : ~cl[j][2] } }
     IN /\ bad' = bad \cup f
        /\ mon' = CMonEffect(m2, ev)
        /\ evs' = Append(evs, <<ev.e, "none">>)
        /\ hist' = [hist EXCEPT ![Len(hist)].outcome = call.mode, ![Len(hist)].evs = evs']
  /\ pc' = "idle"
  /\ UNCHANGED <<cfg, sock, nsock, sst, out, call, cnt, budget, ncalls, addr, cur, err, units>>

Emit == IF Export /\ pc = "finish" /\ pc' = "idle"
          THEN PrintT(ToJson([tag |-> "EXP", cfg |-> cfg, calls |-> hist']))
          ELSE TRUE

(* the pooled client's idle age: reset when the call ends (release), advanced by Tick *)
AgeStep == age' = IF pc = "finish" THEN 0
                  ELSE IF pc = "idle" /\ pc' = "idle" THEN age + 1 ELSE age

Next == (\/ \E sh \in Shapes, nr \in BOOLEAN : Begin(sh, nr)
         \/ Expire \/ Tick
         \/ StartConnect \/ Resolve \/ Create \/ NoDelay \/ Wrap \/ LoopClose \/ Break \/ AfterLoop
         \/ CTmo \/ DoConnect \/ IOTmo \/ TryClose \/ ConnFail
         \/ Send \/ Recv \/ Handler \/ ValErr \/ Done \/ Finish) /\ AgeStep /\ Emit

Spec == Init /\ [][Next]_vars

(****************************** properties ********************************)
MonitorOK == bad = {}
(* the same, restricted to the clauses a given property owns -- used to show which *)
(* property a design-level counterexample belongs to                                *)
NoC01 == \A c \in bad : c \notin {"C01-reads-only-replies-to-its-own-commands",
                                  "C01-never-blocks-on-a-reply-that-will-not-come",
                                  "C01-noreply-call-does-not-read",
                                  "C01-no-reply-left-unread-on-a-connection-that-stays-open",
                                  "C01-no-request-left-half-sent-on-a-connection-that-stays-open"}
=============================================================================
