---------------------------- MODULE PoolThreadsMC ----------------------------
EXTENDS PoolThreads
Ops == {"ok", "fail", "quit", "clear"}
One == { <<a>> : a \in Ops }
Two == { <<a, b>> : a, b \in Ops }
(* 2 threads: every pair of programs of 1..2 operations; 3 threads: one operation each *)
Programs2 == [1..2 -> One \cup Two]
Programs3 == [1..3 -> One]
=============================================================================
