------------------------------- MODULE PoolSeq -------------------------------
(***************************************************************************)
(* C09, pool level: AS-CODED MODEL of ObjectPool used by ONE caller that    *)
(* may hold several connections at a time (what overlapping PooledClient    *)
(* calls amount to), with the idle clock:                                   *)
(*   get      scan the free deque from the left: close (after_remove) every *)
(*            object whose last checkout is more than idle_timeout ago,     *)
(*            take the first fresh one; else create one unless              *)
(*            len(used) >= max_size (RuntimeError); stamp _last_used = now  *)
(*   release  move from used to the right end of free; stamp _last_used     *)
(*   destroy  remove from used, close                                       *)
(*   tick     time passes                                                   *)
(* (_last_used is stamped at checkout and again at release, as coded.)      *)
(* The model carries the PoolRule monitor: TLC checks the                   *)
(* contract over ALL sequences up to Depth (at most MaxObj connections ever *)
(* created) and exports every maximal behaviour for replay on the real      *)
(* pool, where the trace must be the predicted one.                         *)
(***************************************************************************)
EXTENDS PoolRule, TLC, Json

CONSTANTS MaxSize, Idle, Depth, MaxObj, Export, Lifo      \* Lifo = TRUE: pop from the right (a seeded defect; must be rejected)

VARIABLES used,     \* seq of object ids checked out (in checkout order)
          free,     \* seq of object ids idle in the pool (release order)
          last,     \* id -> _last_used
          now, nextid, mine,   \* mine: what the caller holds, in the order it got them
          mon, bad, hist,
          evs       \* every event fed to the monitor so far (history variable: the prediction for the replay)
vars == <<used, free, last, now, nextid, mine, mon, bad, hist, evs>>
view == <<used, free, last, now, nextid, mine, mon, bad>>

RECURSIVE FeedAll(_, _, _)
FeedAll(m, b, es) ==
  IF es = <<>> THEN [m |-> m, b |-> b]
  ELSE LET ev == Head(es)  cl == QMonClauses(m, ev)
           f == { cl[i][1] : i \in { j \in DOMAIN cl : ~cl[j][2] } }
       IN FeedAll(QMonEffect(m, ev), b \cup f, Tail(es))
Feed(es) == LET r == FeedAll(mon, bad, es) IN mon' = r.m /\ bad' = r.b /\ evs' = evs \o es
Snap(u, f) == [e |-> "snap", used |-> u, free |-> f]
Call(m, o) == [e |-> "call", t |-> 1, m |-> m, o |-> o]
Ret(m, o) == [e |-> "ret", t |-> 1, m |-> m, o |-> o]

Init == /\ used = <<>> /\ free = <<>> /\ last = [o \in {} |-> 0] /\ now = 0 /\ nextid = 1 /\ mine = <<>>
        /\ mon = QMonInit([max |-> MaxSize, idle |-> Idle]) /\ bad = {} /\ hist = <<>> /\ evs = <<>>

(* idle_timeout = 0 switches the idle clock off (_idle_clock = float: every stamp and every 'now' is 0.0) *)
Expired(o) == Idle > 0 /\ now - last[o] > Idle
RemoveAt(s, i) == SubSeq(s, 1, i - 1) \o SubSeq(s, i + 1, Len(s))
Stamp(o) == [x \in DOMAIN last \cup {o} |-> IF x = o THEN now ELSE last[x]]

(* the scan of get(): returns [closed |-> ids closed in order, pick |-> id taken or 0, rest |-> remaining free deque] *)
RECURSIVE Scan(_, _)
Scan(f, closedacc) ==
  IF f = <<>> THEN [closed |-> closedacc, pick |-> 0, rest |-> <<>>]
  ELSE LET o == IF Lifo THEN f[Len(f)] ELSE Head(f)
           r == IF Lifo THEN SubSeq(f, 1, Len(f) - 1) ELSE Tail(f)
       IN IF ~Expired(o) THEN [closed |-> closedacc, pick |-> o, rest |-> r]
          ELSE Scan(r, Append(closedacc, o))

DoGet ==
  LET sc == Scan(free, <<>>)
      closes == [i \in DOMAIN sc.closed |-> [e |-> "close", t |-> 1, o |-> sc.closed[i]]]
  IN IF sc.pick # 0
       THEN /\ used' = Append(used, sc.pick) /\ free' = sc.rest /\ last' = Stamp(sc.pick) /\ mine' = Append(mine, sc.pick)
            /\ Feed(<<Call("get", 0)>> \o closes \o <<Snap(Append(used, sc.pick), sc.rest), Ret("get", sc.pick)>>)
            /\ UNCHANGED nextid
     ELSE IF Len(used) >= MaxSize
       THEN /\ free' = sc.rest /\ UNCHANGED <<used, last, mine, nextid>>
            /\ Feed(<<Call("get", 0)>> \o closes \o <<[e |-> "raise", t |-> 1, m |-> "get", x |-> "capacity"], Snap(used, sc.rest)>>)
     ELSE /\ nextid <= MaxObj
          /\ used' = Append(used, nextid) /\ free' = sc.rest /\ last' = Stamp(nextid) /\ mine' = Append(mine, nextid)
          /\ nextid' = nextid + 1
          /\ Feed(<<Call("get", 0)>> \o closes \o <<[e |-> "create", t |-> 1, o |-> nextid],
                    Snap(Append(used, nextid), sc.rest), Ret("get", nextid)>>)

DoRelease(i) ==
  LET o == mine[i]
      u == SelectSeq(used, LAMBDA x : x # o)
  IN /\ mine' = RemoveAt(mine, i) /\ used' = u /\ free' = Append(free, o) /\ last' = Stamp(o)
     /\ Feed(<<Call("release", o), Snap(u, Append(free, o)), Ret("release", o)>>)
     /\ UNCHANGED nextid
DoDestroy(i) ==
  LET o == mine[i]
      u == SelectSeq(used, LAMBDA x : x # o)
  IN /\ mine' = RemoveAt(mine, i) /\ used' = u
     /\ Feed(<<Call("destroy", o), [e |-> "close", t |-> 1, o |-> o], Snap(u, free), Ret("destroy", o)>>)
     /\ UNCHANGED <<free, last, nextid>>

Step(a) ==
  CASE a = "G" -> DoGet /\ UNCHANGED now
    [] a \in {"R0", "R1", "R2"} -> LET i == (CHOOSE k \in 0..2 : a = <<"R0", "R1", "R2">>[k + 1]) + 1
                                   IN i <= Len(mine) /\ DoRelease(i) /\ UNCHANGED now
    [] a \in {"D0", "D1"} -> LET i == (IF a = "D0" THEN 1 ELSE 2) IN i <= Len(mine) /\ DoDestroy(i) /\ UNCHANGED now
    [] a \in {"T2", "T4"} -> /\ now' = now + (IF a = "T2" THEN 2 ELSE 4)
                             /\ Feed(<<[e |-> "tick", d |-> IF a = "T2" THEN 2 ELSE 4]>>)
                             /\ UNCHANGED <<used, free, last, nextid, mine>>
Alphabet == {"G", "R0", "R1", "R2", "D0", "D1", "T2", "T4"}

Next == /\ Len(hist) < Depth
        /\ \E a \in Alphabet : Step(a) /\ hist' = Append(hist, a)
        /\ IF Export /\ Len(hist') = Depth THEN PrintT(ToJson([tag |-> "EXP", seq |-> hist', ev |-> evs'])) ELSE TRUE
Spec == Init /\ [][Next]_vars

MonitorOK == bad = {}
(* the two lists and the caller's hands agree *)
Books == /\ SeqSet(used) \cap SeqSet(free) = {} /\ NoDup(used) /\ NoDup(free)
         /\ SeqSet(mine) = SeqSet(used) /\ Len(used) + Len(free) <= MaxSize
=============================================================================
