SPECIFICATION Spec
CONSTANTS
  MaxCalls = 2
  Export = FALSE
  Interrupts_On = FALSE
  Fixed = TRUE
  Pooled = TRUE
  Idle = 1
VIEW view
INVARIANT MonitorOK
CHECK_DEADLOCK FALSE
