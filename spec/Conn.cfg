SPECIFICATION Spec
CONSTANTS
  MaxCalls = 2
  Export = FALSE
  Interrupts_On = FALSE
  Fixed = TRUE
VIEW view
INVARIANT MonitorOK
CHECK_DEADLOCK FALSE
