SPECIFICATION Spec
CONSTANTS
  MaxAttempts = 2
  Export = TRUE
VIEW view
INVARIANT MonitorOK
INVARIANT Complete
INVARIANT AtMostAttempts
CHECK_DEADLOCK FALSE
