----------------------------- MODULE CacheRule -----------------------------
(***************************************************************************)
(* C05 contract (Tier A): the documented API of Client against a faithful  *)
(* memcached is indistinguishable from a plain in-memory map with expiry   *)
(* and cas versions.  CApply(c, ev) gives the abstract cache's next state   *)
(* and the result the documented contract promises for the call `ev`.      *)
(*                                                                         *)
(* values are byte sequences (Seq(0..255)); results are tagged records:    *)
(*   [t |-> "bool", b] [t |-> "none"] [t |-> "int", n] [t |-> "val", v]     *)
(*   [t |-> "dflt"] [t |-> "casdflt"] [t |-> "cas", n] [t |-> "pair", a, b] *)
(*   [t |-> "map", m |-> << <<key, result>>, ... >>]                        *)
(*   [t |-> "keys", ks |-> <<...>>]  [t |-> "exc", x |-> class name]        *)
(* call events: [e |-> "op", op, k, v, exp, nr, cas, delta, keys, items,   *)
(*               res]   (unused fields carry neutral values)               *)
(* nr is the EFFECTIVE noreply (argument, else default_noreply / the       *)
(* operation's documented default).                                        *)
(***************************************************************************)
EXTENDS Naturals, Integers, Sequences, FiniteSets

ThirtyDays == 2592000
Absent == [t |-> "absent"]

CInit(h) == [st |-> [k \in {} |-> Absent], now |-> h.now, ctr |-> 0]

Has(c, k) == k \in DOMAIN c.st /\ c.st[k].t = "item"
Live(c, k) == /\ Has(c, k)
              /\ (c.st[k].exp = 0 \/ (c.st[k].exp # -1 /\ c.now < c.st[k].exp))
Put(c, k, it) == [c EXCEPT !.st = [x \in DOMAIN c.st \cup {k} |-> IF x = k THEN it ELSE c.st[x]]]
Del(c, k) == Put(c, k, Absent)
ExpAbs(c, e) == IF e = 0 THEN 0 ELSE IF e < 0 THEN -1 ELSE IF e > ThirtyDays THEN e ELSE c.now + e
Item(v, fl, exp, cas) == [t |-> "item", v |-> v, fl |-> fl, exp |-> exp, cas |-> cas]
Store(c, k, v, e) == Put([c EXCEPT !.ctr = c.ctr + 1], k, Item(v, 0, ExpAbs(c, e), c.ctr + 1))

IsNum(v) == Len(v) > 0 /\ \A i \in DOMAIN v : v[i] \in 48..57
RECURSIVE ToNat(_)
ToNat(v) == IF v = <<>> THEN 0 ELSE 10 * ToNat(SubSeq(v, 1, Len(v) - 1)) + (v[Len(v)] - 48)
RECURSIVE ToDigits(_)
ToDigits(n) == IF n < 10 THEN <<48 + n>> ELSE Append(ToDigits(n \div 10), 48 + (n % 10))

B(b) == [t |-> "bool", b |-> b]
None == [t |-> "none"]
Val(v) == [t |-> "val", v |-> v]
R(c, r) == [c |-> c, res |-> r]

GetRes(c, k) == IF Live(c, k) THEN Val(c.st[k].v) ELSE [t |-> "dflt"]
GetsRes(c, k) == IF Live(c, k)
                   THEN [t |-> "pair", a |-> Val(c.st[k].v), b |-> [t |-> "cas", n |-> c.st[k].cas]]
                   ELSE [t |-> "pair", a |-> [t |-> "dflt"], b |-> [t |-> "casdflt"]]
Touch(c, k, e) == IF Live(c, k) THEN Put(c, k, [c.st[k] EXCEPT !.exp = ExpAbs(c, e)]) ELSE c

RECURSIVE ManyRes(_, _, _)
ManyRes(c, keys, withcas) ==
  IF keys = <<>> THEN <<>>
  ELSE LET k == Head(keys)
           rest == ManyRes(c, Tail(keys), withcas)
       (* a key named more than once is still returned once *)
       IN IF Live(c, k) /\ ~\E i \in DOMAIN Tail(keys) : Tail(keys)[i] = k
            THEN <<(<<k, IF withcas THEN GetsRes(c, k) ELSE Val(c.st[k].v)>>)>> \o rest
            ELSE rest

RECURSIVE StoreMany(_, _, _)
StoreMany(c, items, e) == IF items = <<>> THEN c
                          ELSE StoreMany(Store(c, items[1][1], items[1][2], e), Tail(items), e)
RECURSIVE DelMany(_, _)
DelMany(c, keys) == IF keys = <<>> THEN c ELSE DelMany(Del(c, Head(keys)), Tail(keys))

(* constant returned when the caller asked for noreply *)
CApply(c, ev) ==
  LET k == ev.k  nr == ev.nr IN
  CASE ev.op = "set" -> R(Store(c, k, ev.v, ev.exp), B(TRUE))
    [] ev.op = "add" ->
         IF Live(c, k) THEN R(c, B(nr)) ELSE R(Store(c, k, ev.v, ev.exp), B(TRUE))
    [] ev.op = "replace" ->
         IF Live(c, k) THEN R(Store(c, k, ev.v, ev.exp), B(TRUE)) ELSE R(c, B(nr))
    [] ev.op \in {"append", "prepend"} ->
         IF Live(c, k)
           THEN R(Put([c EXCEPT !.ctr = c.ctr + 1], k,
                      [c.st[k] EXCEPT !.v = IF ev.op = "append" THEN c.st[k].v \o ev.v ELSE ev.v \o c.st[k].v,
                                      !.cas = c.ctr + 1]), B(TRUE))
           ELSE R(c, B(nr))
    [] ev.op = "cas" ->
         IF ~Live(c, k) THEN R(c, IF nr THEN B(TRUE) ELSE None)
         ELSE IF c.st[k].cas # ev.cas THEN R(c, B(nr))
         ELSE R(Store(c, k, ev.v, ev.exp), B(TRUE))
    [] ev.op = "get" -> R(c, GetRes(c, k))
    [] ev.op = "gets" -> R(c, GetsRes(c, k))
    [] ev.op = "gat" -> R(Touch(c, k, ev.exp), GetRes(c, k))
    [] ev.op = "gats" -> R(Touch(c, k, ev.exp), GetsRes(c, k))
    [] ev.op = "get_many" -> R(c, [t |-> "map", m |-> ManyRes(c, ev.keys, FALSE)])
    [] ev.op = "gets_many" -> R(c, [t |-> "map", m |-> ManyRes(c, ev.keys, TRUE)])
    [] ev.op = "delete" -> IF Live(c, k) THEN R(Del(c, k), B(TRUE)) ELSE R(c, B(nr))
    [] ev.op = "delete_many" -> R(DelMany(c, ev.keys), B(TRUE))
    [] ev.op \in {"incr", "decr"} ->
         IF ~Live(c, k) THEN R(c, None)
         ELSE IF ~IsNum(c.st[k].v) THEN R(c, IF nr THEN None ELSE [t |-> "exc", x |-> "MemcacheClientError"])
         ELSE LET cur == ToNat(c.st[k].v)
                  new == IF ev.op = "incr" THEN cur + ev.delta ELSE IF cur > ev.delta THEN cur - ev.delta ELSE 0
              IN R(Put([c EXCEPT !.ctr = c.ctr + 1], k, [c.st[k] EXCEPT !.v = ToDigits(new), !.cas = c.ctr + 1]),
                   IF nr THEN None ELSE [t |-> "int", n |-> new])
    [] ev.op = "touch" -> IF Live(c, k) THEN R(Touch(c, k, ev.exp), B(TRUE)) ELSE R(c, B(nr))
    [] ev.op = "flush_all" -> R([c EXCEPT !.st = [x \in DOMAIN c.st |-> Absent]], B(TRUE))
    [] ev.op = "set_many" -> R(StoreMany(c, ev.items, ev.exp), [t |-> "keys", ks |-> <<>>])
    [] OTHER -> R(c, [t |-> "unknown-op"])

SeqSet(s) == { s[i] : i \in DOMAIN s }
SameRes(a, b) == IF a.t = "map" /\ b.t = "map"
                   THEN Len(a.m) = Len(b.m) /\ SeqSet(a.m) = SeqSet(b.m)
                   ELSE a = b

(******************************* monitor ***********************************)
CacheMonInit(h) == CInit(h)
CacheMonClauses(c, ev) ==
  CASE ev.e = "tick" -> << <<"tick-positive", ev.d >= 0>> >>
    [] ev.e = "op" -> << <<"C05-result-is-what-the-abstract-cache-returns", SameRes(ev.res, CApply(c, ev).res)>> >>
    [] OTHER -> << <<"known-event", FALSE>> >>
CacheMonEffect(c, ev) ==
  CASE ev.e = "tick" -> [c EXCEPT !.now = c.now + ev.d]
    [] ev.e = "op" -> CApply(c, ev).c
    [] OTHER -> c
CacheMonFinal(c) == <<>>
=============================================================================
