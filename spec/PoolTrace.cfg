SPECIFICATION TraceSpec
CONSTANTS
  MonInit <- QMonInit
  MonClauses <- QMonClauses
  MonEffect <- QMonEffect
  MonFinal <- QMonFinal
CHECK_DEADLOCK FALSE
