------------------------------ MODULE ConnRule ------------------------------
(***************************************************************************)
(* Connection-level CONTRACT (Tier A) for C01, C06, C07, C09, C10 as a     *)
(* deterministic monitor over the events observable at the socket_module   *)
(* seam and at public call boundaries.  One trace = the life of one client *)
(* object (Client, PooledClient or HashClient) used sequentially.          *)
(*                                                                         *)
(* header h: [kind, tls, ctmo, tmo, idle, ignore_exc]                      *)
(* events (field `e`):                                                     *)
(*   tick(d)                      virtual time passes between calls        *)
(*   call(c, op, kind, rfault, ro) public call begins; kind "data"|"quit"| *)
(*        "close"; rfault: the server was told to answer one command with  *)
(*        an error/garbage/truncated reply; ro: read op subject to C07     *)
(*   resolve(fault) sock(s,fault) opt(s,fault) wrap(s,w,fault)             *)
(*   tmo(s,v,fault) connect(s,tmo,srv,fault)                               *)
(*   send(s,c,tmo,ncmd,nrep,nerr,fault)  nrep = commands sent that expect  *)
(*        a reply; nerr = commands the server answers with an error line   *)
(*   recv(s,c,tmo,n,own,fault)      own = calls whose replies were read    *)
(*   close(s,fault)                                                        *)
(*   ret(c,pend,used,shape) / raise(c,x,pend,used)  pend = open sockets    *)
(*        as <<sid, unread reply bytes, unparsed request bytes>>; used =   *)
(*        checked-out pool objects; shape "miss"|"other"; x: "exc" for an  *)
(*        ordinary Exception, "base" for a BaseException                   *)
(*   end                          after the final close() of the object    *)
(* fault is "none" or a kind; "eintr" is transparent (the call must cope). *)
(***************************************************************************)
EXTENDS Naturals, Sequences, FiniteSets

Interrupts == {"kbd", "sysexit", "gevent"}
(* "nowhere": a connect to an address the name no longer points at -- nobody answers there, but that is the client's *)
(* stale knowledge, not a fault of the environment: the call had every chance to work                              *)
(* "afmismatch": a socket of one address family connected to an address resolved for another -- likewise the client's doing *)
IsFault(f) == f \notin {"none", "eintr", "again", "detached", "nowhere", "afmismatch"}

CMonInit(h) == [h |-> h, socks |-> <<>>, phase |-> "idle", now |-> 0,
                c |-> 0, kind |-> "none", ro |-> FALSE, start |-> 0,
                hard |-> FALSE, soft |-> FALSE, rfault |-> FALSE, intr |-> FALSE,
                expect |-> 0, sent |-> FALSE,
                io |-> {},                         \* sockets this call has sent on or read from
                asks |-> FALSE,                    \* the harness says this call has to consult the server
                everfault |-> FALSE]               \* something has gone wrong on this object before (failover may skip a server)

Open(sk) == sk.st \in {"created", "connected"}
OpenIds(m) == { i \in DOMAIN m.socks : Open(m.socks[i]) }
Known(m, s) == s \in DOMAIN m.socks
Healthy(m) == ~m.hard /\ ~m.soft /\ ~m.rfault /\ ~m.intr
Expired(m, i) == m.h.idle > 0 /\ m.start - m.socks[i].last > m.h.idle

Busy(m) == m.phase = "busy"
Abandoned(m, i) == Known(m, i) /\ m.socks[i].intrclose

(* clauses common to send and recv *)
IoClauses(m, ev) ==
  << <<"io-inside-a-call", Busy(m) /\ ev.c = m.c>>,
     <<"io-on-a-connected-socket", Known(m, ev.s) /\ ev.fault \notin {"use-after-closed", "use-after-detached", "not-connected"}>>,
     <<"C06-failed-socket-never-used-again", Known(m, ev.s) => ~m.socks[ev.s].faulted>>,
     <<"C06-io-under-the-io-timeout", ev.fault \in {"use-after-closed", "use-after-detached", "not-connected"} \/ ev.tmo = m.h.tmo>>,
     <<"C06-tls-only-through-the-wrapper", (m.h.tls /\ Known(m, ev.s)) => m.socks[ev.s].wrapped>>,
     <<"C09-idle-expired-connection-never-reused", Known(m, ev.s) => ~Expired(m, ev.s)>> >>

CMonClauses(m, ev) ==
  CASE ev.e = "tick" -> << <<"tick-between-calls", m.phase = "idle">> >>
    [] ev.e = "call" -> << <<"one-call-at-a-time", m.phase = "idle">> >>
    [] ev.e = "resolve" -> << <<"resolve-inside-a-call", Busy(m)>> >>
    [] ev.e = "sock" ->
         << <<"sock-inside-a-call", Busy(m)>>,
            <<"sock-ids-sequential", ev.fault # "none" \/ ev.s = Len(m.socks) + 1>>,
            <<"C06-abandoned-half-built-socket-closed-first",
                  \A i \in OpenIds(m) : m.socks[i].st # "created">> >>
    [] ev.e = "opt" ->
         << <<"opt-on-open-socket", Known(m, ev.s) /\ Open(m.socks[ev.s])>> >>
    [] ev.e = "wrap" ->
         << <<"wrap-on-open-socket", Known(m, ev.s) /\ Open(m.socks[ev.s])>>,
            <<"wrap-ids-sequential", ev.fault # "none" \/ ev.w = Len(m.socks) + 1>> >>
    [] ev.e = "tmo" ->
         << <<"tmo-on-open-socket", Known(m, ev.s) /\ Open(m.socks[ev.s])>> >>
    [] ev.e = "connect" ->
         << <<"connect-on-fresh-socket", Known(m, ev.s) /\ m.socks[ev.s].st = "created">>,
            <<"C06-connect-under-the-connect-timeout", ev.tmo = m.h.ctmo>>,
            <<"C06-tls-only-through-the-wrapper", (m.h.tls /\ Known(m, ev.s)) => m.socks[ev.s].wrapped>>,
            <<"C06-at-most-one-open-socket-per-server",
                  \A i \in OpenIds(m) : i = ev.s \/ m.socks[i].st # "connected" \/ m.socks[i].srv # ev.srv>> >>
    [] ev.e = "send" -> IoClauses(m, ev)
    [] ev.e = "recv" ->
         IoClauses(m, ev) \o
         << <<"C01-reads-only-replies-to-its-own-commands", \A i \in DOMAIN ev.own : ev.own[i] = m.c>>,
            <<"C01-never-blocks-on-a-reply-that-will-not-come", ev.fault # "wouldblock">>,
            <<"C01-noreply-call-does-not-read", m.expect > 0 \/ ev.fault = "wouldblock">> >>
    [] ev.e = "close" ->
         << <<"close-known-socket", Known(m, ev.s)>>,
            <<"C09-healthy-connection-is-reused-not-discarded",
                  (Known(m, ev.s) /\ m.socks[ev.s].st = "connected" /\ ~m.socks[ev.s].faulted) =>
                     (~Healthy(m) \/ m.kind # "data" \/ ~Busy(m) \/ Expired(m, ev.s))>> >>
    [] ev.e = "closeintr" ->       \* an interruption arrived inside close() before the descriptor was closed
         << <<"close-known-socket", Known(m, ev.s)>> >>
    [] ev.e \in {"ret", "raise"} ->
         (* a connection whose close() was interrupted stays open through no fault of the client: what matters is *)
         (* that it is never used again (the reply-ownership clauses of the following calls)                      *)
         << <<"boundary-inside-a-call", Busy(m) /\ ev.c = m.c>>,
            <<"C01-no-reply-left-unread-on-a-connection-that-stays-open",
                  \A i \in DOMAIN ev.pend : ev.pend[i][2] = 0 \/ Abandoned(m, ev.pend[i][1])>>,
            <<"C01-no-request-left-half-sent-on-a-connection-that-stays-open",
                  \A i \in DOMAIN ev.pend : ev.pend[i][3] = 0 \/ Abandoned(m, ev.pend[i][1])>>,
            (* a call that returns normally and had to ask the server did send its request in this call: what it returns is *)
            (* computed from the answer to ITS commands, not remembered from an earlier call's reply                       *)
            <<"C01-a-call-that-returns-has-asked-the-server-itself",
                  (ev.e = "ret" /\ m.asks /\ Healthy(m) /\ ~m.everfault) => m.sent>>,
            <<"C06-failed-socket-closed-by-the-end-of-the-call",
                  \A i \in OpenIds(m) : ~m.socks[i].faulted>>,
            <<"C06-no-half-built-socket-left-open",
                  \A i \in OpenIds(m) : m.socks[i].st # "created">>,
            <<"C06-next-call-after-a-failure-works", (ev.e = "raise" /\ Healthy(m)) => FALSE>>,
            <<"C09-idle-expired-connection-closed", \A i \in OpenIds(m) : ~Expired(m, i)>>,
            <<"C09-C10-no-pool-slot-lost", ev.used = 0>>,
            (* a pooled call that fails with an ordinary exception after something went wrong on the connection -- a fault,   *)
            (* an error line, a reply the client cannot use -- does not give the connection back to the pool.  (A documented *)
            (* miss such as KeyError from [] is not a failure; an interrupted close() is C10's subject.)                     *)
            <<"C09-a-pooled-connection-on-which-a-call-failed-is-closed",
                  (m.h.kind \in {"pooled", "hashpooled"} /\ ev.e = "raise" /\ ev.x = "exc" /\ (m.rfault \/ m.hard \/ m.soft)) =>
                     \A i \in m.io : ~Open(m.socks[i]) \/ Abandoned(m, i)>>,
            <<"C07-ignore-exc-read-never-raises",
                  (m.h.ignore_exc /\ m.ro /\ ev.e = "raise") => ev.x = "base">>,
            <<"C07-failed-read-returns-the-miss-result",
                  (m.h.ignore_exc /\ m.ro /\ ev.e = "ret" /\ (m.hard \/ m.soft \/ m.rfault)) => ev.shape = "miss">>,
            <<"C07-read-that-reached-no-server-returns-the-miss-result",
                  (m.h.ignore_exc /\ m.ro /\ ev.e = "ret" /\ ~m.sent) => ev.shape = "miss">> >>
    [] ev.e = "end" ->
         << <<"end-when-idle", m.phase = "idle">>,
            <<"C06-every-socket-closed-after-close", OpenIds(m) = {}>> >>
    [] OTHER -> << <<"known-event", FALSE>> >>

NewSock(wrapped) == [st |-> "created", wrapped |-> wrapped, faulted |-> FALSE, srv |-> "none", last |-> 0, intrclose |-> FALSE]
Mark(m, s, cond) == IF cond /\ Known(m, s) THEN [m.socks EXCEPT ![s].faulted = TRUE] ELSE m.socks
CreationPhase(m, s) == Known(m, s) /\ m.socks[s].st = "created"

CMonEffect(m, ev) ==
  CASE ev.e = "tick" -> [m EXCEPT !.now = m.now + ev.d]
    [] ev.e = "call" -> [m EXCEPT !.phase = "busy", !.c = ev.c, !.kind = ev.kind, !.ro = ev.ro,
                                  !.start = m.now, !.hard = FALSE, !.soft = FALSE, !.intr = FALSE,
                                  !.rfault = ev.rfault, !.expect = 0, !.sent = FALSE, !.io = {},
                                  !.asks = ("asks" \in DOMAIN ev) /\ ev.asks]
    [] ev.e = "resolve" -> [m EXCEPT !.hard = m.hard \/ IsFault(ev.fault)]
    [] ev.e = "sock" ->
         IF ev.fault = "none"
           THEN [m EXCEPT !.socks = Append(m.socks, NewSock(FALSE)), !.soft = FALSE]
           ELSE [m EXCEPT !.soft = TRUE, !.intr = m.intr \/ ev.fault \in Interrupts]
    [] ev.e = "opt" ->
         (* before settimeout/connect the fallback loop may still move on to another address *)
         [m EXCEPT !.socks = Mark(m, ev.s, IsFault(ev.fault)),
                   !.soft = m.soft \/ IsFault(ev.fault),
                   !.intr = m.intr \/ ev.fault \in Interrupts]
    [] ev.e = "wrap" ->
         IF ev.fault = "none"
           THEN [m EXCEPT !.socks = Append([m.socks EXCEPT ![ev.s].st = "detached"], NewSock(TRUE))]
           ELSE [m EXCEPT !.socks = Mark(m, ev.s, TRUE), !.soft = TRUE,
                          !.intr = m.intr \/ ev.fault \in Interrupts]
    [] ev.e = "tmo" -> [m EXCEPT !.socks = Mark(m, ev.s, IsFault(ev.fault)),
                                 !.hard = m.hard \/ IsFault(ev.fault),
                                 !.intr = m.intr \/ ev.fault \in Interrupts]
    [] ev.e = "connect" ->
         IF ev.fault = "none" /\ Known(m, ev.s)
           THEN [m EXCEPT !.socks = [m.socks EXCEPT ![ev.s].st = "connected", ![ev.s].srv = ev.srv,
                                                    ![ev.s].last = m.start]]
           ELSE IF ev.fault \in {"nowhere", "afmismatch"} THEN [m EXCEPT !.socks = Mark(m, ev.s, TRUE)]
           ELSE [m EXCEPT !.socks = Mark(m, ev.s, TRUE), !.hard = TRUE,
                          !.intr = m.intr \/ ev.fault \in Interrupts]
    [] ev.e = "send" ->
         [m EXCEPT !.socks = Mark(m, ev.s, IsFault(ev.fault)),
                   !.hard = m.hard \/ IsFault(ev.fault),
                   !.intr = m.intr \/ ev.fault \in Interrupts,
                   !.expect = m.expect + ev.nrep,
                   !.sent = m.sent \/ ev.fault = "none",
                   !.rfault = m.rfault \/ ev.nerr > 0,
                   !.io = IF Known(m, ev.s) THEN m.io \cup {ev.s} ELSE m.io]
    [] ev.e = "recv" ->
         [m EXCEPT !.socks = Mark(m, ev.s, IsFault(ev.fault)),
                   !.hard = m.hard \/ IsFault(ev.fault),
                   !.intr = m.intr \/ ev.fault \in Interrupts,
                   !.io = IF Known(m, ev.s) THEN m.io \cup {ev.s} ELSE m.io]
    [] ev.e = "close" ->
         IF Known(m, ev.s) /\ m.socks[ev.s].st # "detached"
           (* an ordinary error inside close() is swallowed by the client: the descriptor is gone and the call goes on; *)
           (* only an interruption delivered there makes the call fail                                               *)
           THEN [m EXCEPT !.socks = [m.socks EXCEPT ![ev.s].st = "closed"],
                          !.hard = m.hard \/ ev.fault \in Interrupts,
                          !.intr = m.intr \/ ev.fault \in Interrupts]
           ELSE m
    [] ev.e = "closeintr" ->
         IF Known(m, ev.s) THEN [m EXCEPT !.socks = [m.socks EXCEPT ![ev.s].intrclose = TRUE, ![ev.s].faulted = TRUE],
                                          !.hard = TRUE, !.intr = TRUE]
         ELSE m
    [] ev.e \in {"ret", "raise"} ->
         (* (everfault is only kept for traces whose header announces `asks`: the as-coded model's state space stays as it was) *)
         [m EXCEPT !.phase = "idle", !.everfault = m.everfault \/ (("asks" \in DOMAIN m.h) /\ ~Healthy(m)),
                   !.socks = [i \in DOMAIN m.socks |->
                                IF m.socks[i].st = "connected" /\ (\E j \in DOMAIN ev.pend : ev.pend[j][1] = i)
                                     /\ ~Expired(m, i)
                                  THEN [m.socks[i] EXCEPT !.last = m.now] ELSE m.socks[i]]]
    [] ev.e = "end" -> [m EXCEPT !.phase = "ended"]
    [] OTHER -> m

CMonFinal(m) == << <<"trace-ends-with-end", m.phase = "ended">> >>
=============================================================================
