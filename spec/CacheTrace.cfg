SPECIFICATION TraceSpec
CONSTANTS
  MonInit <- CacheMonInit
  MonClauses <- CacheMonClauses
  MonEffect <- CacheMonEffect
  MonFinal <- CacheMonFinal
CHECK_DEADLOCK FALSE
