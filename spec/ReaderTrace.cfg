SPECIFICATION TraceSpec
CONSTANTS
  MonInit <- RMonInit
  MonClauses <- RMonClauses
  MonEffect <- RMonEffect
  MonFinal <- RMonFinal
CHECK_DEADLOCK FALSE
