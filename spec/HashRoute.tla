------------------------------ MODULE HashRoute ------------------------------
(***************************************************************************)
(* C12 AS-CODED MODEL of HashClient's routing: _get_client splits           *)
(* (server_key, key) pairs, single-key operations go to Place(rk), set_many  *)
(* and get_many build one batch per server (a dict / list keyed by server)   *)
(* and run one sub-call per batch.  The placement function is arbitrary      *)
(* (every function RoutingKeys -> Servers).  TLC explores every sequence of  *)
(* operations over a small universe of plain keys and pairs, feeds the       *)
(* observable events to the RouteRule monitor and exports every behaviour.   *)
(***************************************************************************)
EXTENDS RouteRule, TLC, Json

CONSTANTS NServers, MaxOps, Export
Servers == 1..NServers
(* items: <<routing key, key>>; plain keys route by themselves (ids 1,2); pairs carry server-keys 3,4 *)
Items == { <<1, 1>>, <<2, 2>>, <<3, 1>>, <<4, 2>>, <<3, 5>> }
Batches == { <<a>> : a \in Items } \cup { <<a, b>> : a, b \in Items } \cup { << <<1, 1>>, <<2, 2>>, <<3, 5>> >> }
DistinctKeys(b) == \A i, j \in DOMAIN b : i # j => b[i] # b[j]

VARIABLES place, store, mon, bad, hist, nops, nextv
vars == <<place, store, mon, bad, hist, nops, nextv>>
view == <<place, store, mon, bad, nops, nextv>>

Init == /\ place \in [1..4 -> Servers]
        /\ store = [x \in {} |-> 0] /\ mon = PMonInit([x |-> 0]) /\ bad = {} /\ hist = <<>> /\ nops = 0 /\ nextv = 1

Feed(ev) == LET cl == PMonClauses(mon, ev)
                f == { cl[i][1] : i \in { j \in DOMAIN cl : ~cl[j][2] } }
            IN bad' = bad \cup f /\ mon' = PMonEffect(mon, ev)

(* one routing query per requested key, in request order *)
Placed(b) == [i \in DOMAIN b |-> <<b[i][1], place[b[i][1]]>>]
(* per-server batches: a dict keyed by key (set_many) drops a repeated key of the same server;    *)
(* the commands each server receives                                                             *)
SentOf(b) == [i \in DOMAIN b |-> <<place[b[i][1]], b[i][2]>>]
Held(s, k) == IF <<s, k>> \in DOMAIN store THEN store[<<s, k>>] ELSE 0

DoWrite(b, op) ==
  /\ DistinctKeys(b) /\ Cardinality({ <<place[x[1]], x[2]>> : x \in SeqSet(b) }) = Len(b)
  /\ store' = [x \in DOMAIN store \cup SeqSet(SentOf(b)) |-> IF x \in SeqSet(SentOf(b)) THEN nextv ELSE store[x]]
  /\ Feed([e |-> "op", op |-> op, kind |-> "write", v |-> nextv, items |-> b, placed |-> Placed(b), sent |-> SentOf(b), found |-> <<>>])
  /\ nextv' = nextv + 1
  /\ hist' = Append(hist, [op |-> op, items |-> b])
DoRead(b, op) ==
  /\ DistinctKeys(b) /\ Cardinality({ <<place[x[1]], x[2]>> : x \in SeqSet(b) }) = Len(b)
  /\ LET hits == SelectSeq(SentOf(b), LAMBDA x : Held(x[1], x[2]) # 0)
     IN Feed([e |-> "op", op |-> op, kind |-> "read", v |-> 0, items |-> b, placed |-> Placed(b), sent |-> SentOf(b),
              found |-> [i \in DOMAIN hits |-> <<hits[i][2], Held(hits[i][1], hits[i][2])>>]])
  /\ UNCHANGED <<store, nextv>>
  /\ hist' = Append(hist, [op |-> op, items |-> b])
DoDelete(b) ==
  /\ Len(b) = 1
  /\ store' = [x \in DOMAIN store \cup SeqSet(SentOf(b)) |-> IF x \in SeqSet(SentOf(b)) THEN 0 ELSE store[x]]
  /\ Feed([e |-> "op", op |-> "delete", kind |-> "delete", v |-> 0, items |-> b, placed |-> Placed(b), sent |-> SentOf(b), found |-> <<>>])
  /\ UNCHANGED nextv
  /\ hist' = Append(hist, [op |-> "delete", items |-> b])

Next == /\ nops < MaxOps /\ nops' = nops + 1 /\ place' = place
        /\ \E b \in Batches :
             \/ (Len(b) = 1 /\ DoWrite(b, "set")) \/ DoWrite(b, "set_many")
             \/ (Len(b) = 1 /\ DoRead(b, "get")) \/ DoRead(b, "get_many") \/ DoDelete(b)
        /\ IF Export /\ nops' = MaxOps THEN PrintT(ToJson([tag |-> "EXP", place |-> place, hist |-> hist'])) ELSE TRUE
Spec == Init /\ [][Next]_vars
MonitorOK == bad = {}
=============================================================================
