SPECIFICATION TraceSpec
CONSTANTS
  MonInit <- WMonInit
  MonClauses <- WMonClauses
  MonEffect <- WMonEffect
  MonFinal <- WMonFinal
CHECK_DEADLOCK FALSE
