------------------------------ MODULE Fallback ------------------------------
(***************************************************************************)
(* C18 as-coded model of pymemcache/fallback.py: one action per loop step. *)
(* TLC enumerates every number of caches 1..MaxCaches, every hit/miss      *)
(* assignment and every operation, feeds the emitted events to the         *)
(* contract monitor (FallbackRule) and exports each complete behaviour.    *)
(***************************************************************************)
EXTENDS FallbackRule, TLC, Json

CONSTANTS MaxCaches, Export,
          MaxOps      \* operations issued one after the other on the same FallbackClient

Reads1 == {"get", "gets"}
ReadsN == {"get_many", "gets_many"}
Writes == {"set", "add", "replace", "append", "prepend", "cas", "delete", "incr", "decr", "touch", "flush_all"}
KindOf(op) == IF op \in Reads1 THEN "read1" ELSE IF op \in ReadsN THEN "readN" ELSE "write"

VARIABLES n, hit, op, pc, i, mon, bad, hist, nops
vars == <<n, hit, op, pc, i, mon, bad, hist, nops>>

Feed(ev) == LET cl == FMonClauses(mon, ev)
                f  == { cl[k][1] : k \in { j \in DOMAIN cl : ~cl[j][2] } }
            IN bad' = bad \cup f /\ mon' = FMonEffect(mon, ev) /\ hist' = Append(hist, ev)

Init == /\ n \in 1..MaxCaches
        /\ hit \in [1..MaxCaches -> BOOLEAN]
        /\ \A k \in 1..MaxCaches : k > n => hit[k] = FALSE      \* unused caches: canonical value
        /\ op = "none" /\ nops = 0
        /\ pc = "begin" /\ i = 1 /\ bad = {} /\ hist = <<>>
        /\ mon = FMonInit([n |-> n])

Begin == /\ pc = "begin" /\ nops < MaxOps
         /\ \E o \in Reads1 \cup ReadsN \cup Writes :
              /\ op' = o
              /\ Feed([e |-> "begin", op |-> o, kind |-> KindOf(o)])
              /\ pc' = IF KindOf(o) = "write" THEN "write" ELSE "loop"
         /\ nops' = nops + 1 /\ i' = 1
         /\ UNCHANGED <<n, hit>>

(* self.caches[0].<op>(...) *)
Write == /\ pc = "write"
         /\ Feed([e |-> "consult", i |-> 1, m |-> op, a |-> "same-args", hit |-> hit[1]])
         /\ pc' = "retw"
         /\ UNCHANGED <<n, hit, op, i, nops>>
RetW == /\ pc = "retw"
        /\ Feed([e |-> "ret", src |-> 0, empty |-> TRUE])
        /\ pc' = "begin"
        /\ UNCHANGED <<n, hit, op, i, nops>>

(* for cache in self.caches: result = cache.<op>(..); if result (is not None): return result *)
Loop == /\ pc = "loop"
        /\ IF i <= n
             THEN /\ Feed([e |-> "consult", i |-> i, m |-> op, a |-> "same-args", hit |-> hit[i]])
                  /\ IF hit[i] THEN pc' = "rethit" /\ i' = i ELSE pc' = "loop" /\ i' = i + 1
             ELSE /\ Feed([e |-> "ret", src |-> 0, empty |-> TRUE])
                  /\ pc' = "begin" /\ i' = i
        /\ UNCHANGED <<n, hit, op, nops>>
RetHit == /\ pc = "rethit"
          /\ Feed([e |-> "ret", src |-> i, empty |-> FALSE])
          /\ pc' = "begin"
          /\ UNCHANGED <<n, hit, op, i, nops>>

Emit == IF Export /\ pc' = "begin" /\ pc # "begin" /\ nops = MaxOps
          THEN PrintT(ToJson([tag |-> "EXP", n |-> n, hit |-> [k \in 1..n |-> hit[k]], hist |-> hist']))
          ELSE TRUE
Next == (Begin \/ Write \/ RetW \/ Loop \/ RetHit) /\ Emit
Spec == Init /\ [][Next]_vars

MonitorOK == bad = {}
Complete == pc = "begin" => FMonFinal(mon)[1][2]
=============================================================================
