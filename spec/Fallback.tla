------------------------------ MODULE Fallback ------------------------------
(***************************************************************************)
(* C18 as-coded model of pymemcache/fallback.py: one action per loop step. *)
(* TLC enumerates every number of caches 1..MaxCaches, every hit/miss      *)
(* assignment and every operation, feeds the emitted events to the         *)
(* contract monitor (FallbackRule) and exports each complete behaviour.    *)
(***************************************************************************)
EXTENDS FallbackRule, TLC, Json

CONSTANTS MaxCaches, Export

Reads1 == {"get", "gets"}
ReadsN == {"get_many", "gets_many"}
Writes == {"set", "add", "replace", "append", "prepend", "cas", "delete", "incr", "decr", "touch", "flush_all"}
KindOf(op) == IF op \in Reads1 THEN "read1" ELSE IF op \in ReadsN THEN "readN" ELSE "write"

VARIABLES n, hit, op, pc, i, mon, bad, hist
vars == <<n, hit, op, pc, i, mon, bad, hist>>

Feed(ev) == LET cl == FMonClauses(mon, ev)
                f  == { cl[k][1] : k \in { j \in DOMAIN cl : ~cl[j][2] } }
            IN bad' = bad \cup f /\ mon' = FMonEffect(mon, ev) /\ hist' = Append(hist, ev)

Init == /\ n \in 1..MaxCaches
        /\ hit \in [1..MaxCaches -> BOOLEAN]
        /\ \A k \in 1..MaxCaches : k > n => hit[k] = FALSE      \* unused caches: canonical value
        /\ op \in Reads1 \cup ReadsN \cup Writes
        /\ pc = "begin" /\ i = 1 /\ bad = {} /\ hist = <<>>
        /\ mon = FMonInit([n |-> n])

Begin == /\ pc = "begin"
         /\ Feed([e |-> "begin", op |-> op, kind |-> KindOf(op)])
         /\ pc' = IF KindOf(op) = "write" THEN "write" ELSE "loop"
         /\ UNCHANGED <<n, hit, op, i>>

(* self.caches[0].<op>(...) *)
Write == /\ pc = "write"
         /\ Feed([e |-> "consult", i |-> 1, m |-> op, a |-> "same-args", hit |-> hit[1]])
         /\ pc' = "retw"
         /\ UNCHANGED <<n, hit, op, i>>
RetW == /\ pc = "retw"
        /\ Feed([e |-> "ret", src |-> 0])
        /\ pc' = "done"
        /\ UNCHANGED <<n, hit, op, i>>

(* for cache in self.caches: result = cache.<op>(..); if result (is not None): return result *)
Loop == /\ pc = "loop"
        /\ IF i <= n
             THEN /\ Feed([e |-> "consult", i |-> i, m |-> op, a |-> "same-args", hit |-> hit[i]])
                  /\ IF hit[i] THEN pc' = "rethit" /\ i' = i ELSE pc' = "loop" /\ i' = i + 1
             ELSE /\ Feed([e |-> "ret", src |-> 0])
                  /\ pc' = "done" /\ i' = i
        /\ UNCHANGED <<n, hit, op>>
RetHit == /\ pc = "rethit"
          /\ Feed([e |-> "ret", src |-> i])
          /\ pc' = "done"
          /\ UNCHANGED <<n, hit, op, i>>

Emit == IF Export /\ pc' = "done"
          THEN PrintT(<<"EXP", ToJson([n |-> n, hit |-> [k \in 1..n |-> hit[k]], op |-> op, hist |-> hist'])>>)
          ELSE TRUE
Next == (Begin \/ Write \/ RetW \/ Loop \/ RetHit) /\ Emit
Spec == Init /\ [][Next]_vars

MonitorOK == bad = {}
Complete == pc = "done" => FMonFinal(mon)[1][2]
=============================================================================
