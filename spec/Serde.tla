-------------------------------- MODULE Serde --------------------------------
(***************************************************************************)
(* C15 decision model of pymemcache/serde.py (flag algebra and compression  *)
(* threshold), with the value abstracted to (class, serialized length n,    *)
(* compressed length cn).  TLC enumerates the grid value class x size class *)
(* x compressibility x pickle protocol x min_compress_len x codec, checks    *)
(* the model's outcome against the SerdeRule monitor, and prints every grid *)
(* point for the harness to concretise.                                     *)
(***************************************************************************)
EXTENDS SerdeRule, TLC, Json

Classes == {"bytes", "str", "int", "bigint", "negint", "bool", "none", "float", "list", "dict", "tuple", "set",
            "frozenset", "complex", "bytearray", "range", "intsub", "strsub", "bytessub", "dictsub", "object", "nested"}
Sizes == {"below", "at", "above"}            \* serialized length relative to min_compress_len
Compress == {"shrinks", "same", "grows"}     \* what the codec does to it
Protos == 0..5
Mins == {0, 1, 10, 400}
Codecs == {"zlib", "bz2", "lzma", "identity"}

VARIABLES g, done
vars == <<g, done>>
Grid == [cls : Classes, size : Sizes, comp : Compress, proto : Protos, min : Mins, codec : Codecs, wrap : BOOLEAN]
Init == g \in Grid /\ done = FALSE

(* as coded *)
BaseFlag(c) == IF c = "bytes" THEN 0 ELSE IF c = "str" THEN 16 ELSE IF c \in {"int", "bigint", "negint"} THEN 2 ELSE 1
N == IF g.min = 0 THEN 50 ELSE IF g.size = "below" THEN g.min - 1 ELSE IF g.size = "at" THEN g.min ELSE g.min + 5
CN == IF g.comp = "shrinks" THEN (IF N > 1 THEN N - 1 ELSE 0) ELSE IF g.comp = "same" THEN N ELSE N + 3
Tries == g.wrap /\ N > g.min /\ g.min > 0                                 \* len(value) > min_compress_len > 0
Keeps == Tries /\ ~(N < CN)                                             \* if len(old) < len(new): keep old
Outcome == [e |-> "rt", raised |-> "none", outtype |-> "bytes",
            flags |-> BaseFlag(g.cls) + (IF Keeps THEN 8 ELSE 0),
            n |-> N, outlen |-> IF Keeps THEN CN ELSE N, decok |-> Keeps, rawok |-> ~Keeps, eq |-> TRUE, ty |-> TRUE, eq2 |-> TRUE,
            compressed_serde |-> g.wrap]
Bad(cl) == { cl[i][1] : i \in { j \in DOMAIN cl : ~cl[j][2] } }

Next == /\ ~done /\ done' = TRUE /\ g' = g
        /\ PrintT(ToJson([tag |-> "EXP", g |-> g]))
Spec == Init /\ [][Next]_vars
(* the decision model satisfies the contract everywhere except where the codec returns a form of *)
(* the SAME length that is not the original (kept and flagged: still consistent)                 *)
ModelOK == Bad(SMonClauses(SMonInit(0), Outcome)) = {}
=============================================================================
