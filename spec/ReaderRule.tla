----------------------------- MODULE ReaderRule -----------------------------
(***************************************************************************)
(* C03 contract: what a sequence of reads (line / sized value / token      *)
(* segment) must return, defined on the WHOLE stream -- no notion of how   *)
(* the stream was cut into recv() results.                                 *)
(* A read plan is a sequence of [k |-> "line"] | [k |-> "value", n]         *)
(*                               | [k |-> "seg", tok]                       *)
(***************************************************************************)
EXTENDS Naturals, Sequences, FiniteSets

CRLF == <<13, 10>>

(* least index at which tok occurs in s, 0 if none *)
Find(s, tok) ==
  LET n == Len(tok)
      hits == { i \in 1..(Len(s) - n + 1) : SubSeq(s, i, i + n - 1) = tok }
  IN IF Len(s) < n \/ hits = {} THEN 0 ELSE CHOOSE i \in hits : \A j \in hits : i <= j

From(s, i) == SubSeq(s, i, Len(s))

(* one read on the whole remaining stream: [ok, res, rest] *)
RefRead(s, op) ==
  CASE op.k = "line" ->
         LET i == Find(s, CRLF) IN
         IF i = 0 THEN [ok |-> FALSE, res |-> <<>>, rest |-> s]
                  ELSE [ok |-> TRUE, res |-> SubSeq(s, 1, i - 1), rest |-> From(s, i + 2)]
    [] op.k = "value" ->
         IF Len(s) < op.n + 2 THEN [ok |-> FALSE, res |-> <<>>, rest |-> s]
                              ELSE [ok |-> TRUE, res |-> SubSeq(s, 1, op.n), rest |-> From(s, op.n + 3)]
    [] op.k = "seg" ->
         LET i == Find(s, op.tok) IN
         IF i = 0 THEN [ok |-> FALSE, res |-> <<>>, rest |-> s]
                  ELSE [ok |-> TRUE, res |-> SubSeq(s, 1, i - 1), rest |-> From(s, i + Len(op.tok))]

RECURSIVE RefRun(_, _)
RefRun(s, plan) ==
  IF plan = <<>> THEN [ok |-> TRUE, results |-> <<>>, rest |-> s]
  ELSE LET r == RefRead(s, Head(plan)) IN
       IF ~r.ok THEN [ok |-> FALSE, results |-> <<>>, rest |-> s]
       ELSE LET t == RefRun(r.rest, Tail(plan)) IN
            [ok |-> t.ok, results |-> <<r.res>> \o t.results, rest |-> t.rest]

(******************************* monitor ***********************************)
(* events                                                                  *)
(*  [e |-> "reads", stream, plan, pieces, results, rest]  one execution of  *)
(*     the real reader functions over `stream` delivered as `pieces`        *)
(*  [e |-> "call", same]  a public call whose result under a segmentation   *)
(*     equals (same = TRUE) or differs from its one-piece result            *)
RECURSIVE Flat(_)
Flat(ps) == IF ps = <<>> THEN <<>> ELSE Head(ps) \o Flat(Tail(ps))

RMonInit(h) == [n |-> 0]
RMonClauses(m, ev) ==
  CASE ev.e = "reads" ->
         LET ref == RefRun(ev.stream, ev.plan) IN
         << <<"pieces-are-a-segmentation-of-the-stream", Flat(ev.pieces) = ev.stream /\ \A i \in DOMAIN ev.pieces : ev.pieces[i] # <<>>>>,
            <<"C03-reads-return-what-the-whole-stream-defines", ref.ok => ev.results = ref.results>>,
            <<"C03-unread-bytes-are-carried-over-intact", ref.ok => ev.rest = ref.rest>> >>
    [] ev.e = "call" ->
         << <<"C03-result-independent-of-segmentation", ev.same>> >>
    [] OTHER -> << <<"known-event", FALSE>> >>
RMonEffect(m, ev) == [m EXCEPT !.n = m.n + 1]
RMonFinal(m) == <<>>
=============================================================================
