SPECIFICATION TraceSpec
CONSTANTS
  MonInit <- ZMonInit
  MonClauses <- ZMonClauses
  MonEffect <- ZMonEffect
  MonFinal <- ZMonFinal
CHECK_DEADLOCK FALSE
