------------------------------- MODULE Proto -------------------------------
(***************************************************************************)
(* The memcached text protocol, request side, as the server reads it.       *)
(*                                                                         *)
(*   Render(c)     the grammar: the bytes of one abstract command record     *)
(*   Tokenize(b)   a strict, server-grade reader of a byte stream: a line   *)
(*                 ends at the first LF (one CR before it is stripped),     *)
(*                 tokens are the maximal runs of non-space bytes, storage  *)
(*                 commands then take exactly <bytes> bytes of data and     *)
(*                 CR LF.  It knows nothing about the client.               *)
(*                                                                         *)
(* Everything is a sequence of bytes (0..255): keys, numbers (decimal       *)
(* text: the protocol's 64-bit ranges exceed TLC's integers), data blocks.  *)
(* A command record:                                                       *)
(*   storage  [verb, key, flags, exptime, data, noreply, cas]              *)
(*            (cas = <<>> unless verb = "cas"; <bytes> is Len(data))        *)
(*   get/gets/gat/gats [verb, keys, exptime (<<>> for get/gets), noreply]  *)
(*   delete   [verb, key, noreply]      incr/decr [verb, key, delta, noreply]*)
(*   touch    [verb, key, exptime, noreply]   flush_all [verb, delay, noreply]*)
(*   stats    [verb, keys (the arguments), exptime <<>>, noreply FALSE]      *)
(*   cache_memlimit [verb, limit, noreply]   version / quit [verb, noreply]  *)
(*   shutdown [verb, graceful, noreply FALSE]                               *)
(*   what a server would answer ERROR / CLIENT_ERROR to:                    *)
(*            [verb |-> "PARSE-ERROR", why |-> ...]                         *)
(* ProtoMC.tla checks with TLC, over a small byte alphabet, that the        *)
(* grammar is unambiguous (Tokenize inverts Render, also on concatenated    *)
(* commands) and which key bytes break that (the injection lemma).          *)
(* WireRule.tla uses Tokenize to judge the bytes the real client wrote.     *)
(***************************************************************************)
EXTENDS Naturals, Sequences, FiniteSets

SP == 32
CR == 13
LF == 10
Minus == 45
Plus == 43
Digit == 48..57
KeyMax == 250

VB == [ set |-> <<115, 101, 116>>, add |-> <<97, 100, 100>>,
        replace |-> <<114, 101, 112, 108, 97, 99, 101>>, append |-> <<97, 112, 112, 101, 110, 100>>,
        prepend |-> <<112, 114, 101, 112, 101, 110, 100>>, cas |-> <<99, 97, 115>>,
        get |-> <<103, 101, 116>>, gets |-> <<103, 101, 116, 115>>, gat |-> <<103, 97, 116>>,
        gats |-> <<103, 97, 116, 115>>, delete |-> <<100, 101, 108, 101, 116, 101>>,
        incr |-> <<105, 110, 99, 114>>, decr |-> <<100, 101, 99, 114>>, touch |-> <<116, 111, 117, 99, 104>>,
        flush_all |-> <<102, 108, 117, 115, 104, 95, 97, 108, 108>>,
        stats |-> <<115, 116, 97, 116, 115>>, version |-> <<118, 101, 114, 115, 105, 111, 110>>, quit |-> <<113, 117, 105, 116>>,
        cache_memlimit |-> <<99, 97, 99, 104, 101, 95, 109, 101, 109, 108, 105, 109, 105, 116>>,
        shutdown |-> <<115, 104, 117, 116, 100, 111, 119, 110>> ]
GracefulTok == <<103, 114, 97, 99, 101, 102, 117, 108>>
NoreplyTok == <<110, 111, 114, 101, 112, 108, 121>>
Verbs == DOMAIN VB
StorageVerbs == {"set", "add", "replace", "append", "prepend", "cas"}
RetrievalVerbs == {"get", "gets", "gat", "gats"}
VerbOf(tok) == IF \E v \in Verbs : VB[v] = tok THEN CHOOSE v \in Verbs : VB[v] = tok ELSE "?"

(****************************** decimal text ******************************)
AllDigits(t) == t # <<>> /\ \A i \in DOMAIN t : t[i] \in Digit
IsUInt(t) == AllDigits(t)
IsSInt(t) == IF t # <<>> /\ t[1] \in {Minus, Plus} THEN AllDigits(SubSeq(t, 2, Len(t))) ELSE AllDigits(t)
(* magnitude without leading zeros ("0" for zero) *)
Mag(t) == LET nz == {i \in DOMAIN t : t[i] # 48}
          IN IF nz = {} THEN <<48>>
             ELSE SubSeq(t, CHOOSE i \in nz : \A j \in nz : i <= j, Len(t))
(* canonical form: what str(int(token)) prints *)
Canon(t) == IF t # <<>> /\ t[1] = Minus
              THEN (IF Mag(SubSeq(t, 2, Len(t))) = <<48>> THEN <<48>> ELSE <<Minus>> \o Mag(SubSeq(t, 2, Len(t))))
            ELSE IF t # <<>> /\ t[1] = Plus THEN Mag(SubSeq(t, 2, Len(t)))
            ELSE Mag(t)
(* a <= b for canonical magnitudes *)
MagLeq(a, b) == \/ Len(a) < Len(b)
                \/ /\ Len(a) = Len(b)
                   /\ \/ a = b
                      \/ \E i \in DOMAIN a : a[i] < b[i] /\ \A j \in 1..(i - 1) : a[j] = b[j]
U32Max == <<52, 50, 57, 52, 57, 54, 55, 50, 57, 53>>                                        \* 4294967295
U64Max == <<49, 56, 52, 52, 54, 55, 52, 52, 48, 55, 51, 55, 48, 57, 53, 53, 49, 54, 49, 53>> \* 18446744073709551615
I64Max == <<57, 50, 50, 51, 51, 55, 50, 48, 51, 54, 56, 53, 52, 55, 55, 53, 56, 48, 55>>   \* 9223372036854775807
I64Min == <<57, 50, 50, 51, 51, 55, 50, 48, 51, 54, 56, 53, 52, 55, 55, 53, 56, 48, 56>>   \* 9223372036854775808
IsU32(t) == IsUInt(t) /\ MagLeq(Mag(t), U32Max)
IsU64(t) == IsUInt(t) /\ MagLeq(Mag(t), U64Max)
IsI64(t) == /\ IsSInt(t)
            /\ IF t[1] = Minus THEN MagLeq(Mag(SubSeq(t, 2, Len(t))), I64Min)
               ELSE IF t[1] = Plus THEN MagLeq(Mag(SubSeq(t, 2, Len(t))), I64Max)
               ELSE MagLeq(Mag(t), I64Max)
RECURSIVE DecVal(_)
DecVal(t) == IF t = <<>> THEN 0 ELSE 10 * DecVal(SubSeq(t, 1, Len(t) - 1)) + (t[Len(t)] - 48)
(* a data-block length we are prepared to follow: a non-negative integer below 10^8 *)
IsLen(t) == IsUInt(t) /\ Len(Mag(t)) <= 8
RECURSIVE NatText(_)
NatText(n) == IF n < 10 THEN <<48 + n>> ELSE NatText(n \div 10) \o <<48 + (n % 10)>>

(******************************** grammar **********************************)
RECURSIVE JoinSp(_)
JoinSp(toks) == IF toks = <<>> THEN <<>>
                ELSE IF Len(toks) = 1 THEN toks[1]
                ELSE toks[1] \o <<SP>> \o JoinSp(Tail(toks))
NR(c) == IF c.noreply THEN << NoreplyTok >> ELSE << >>
Line(toks) == JoinSp(toks) \o <<CR, LF>>

Render(c) ==
  CASE c.verb \in StorageVerbs ->
         Line(<<VB[c.verb], c.key, c.flags, c.exptime, NatText(Len(c.data))>>
              \o (IF c.verb = "cas" THEN <<c.cas>> ELSE << >>) \o NR(c)) \o c.data \o <<CR, LF>>
    [] c.verb \in {"get", "gets"} -> Line(<<VB[c.verb]>> \o c.keys)
    [] c.verb \in {"gat", "gats"} -> Line(<<VB[c.verb], c.exptime>> \o c.keys)
    [] c.verb = "delete" -> Line(<<VB.delete, c.key>> \o NR(c))
    [] c.verb \in {"incr", "decr"} -> Line(<<VB[c.verb], c.key, c.delta>> \o NR(c))
    [] c.verb = "touch" -> Line(<<VB.touch, c.key, c.exptime>> \o NR(c))
    [] c.verb = "flush_all" -> Line(<<VB.flush_all, c.delay>> \o NR(c))
    [] c.verb = "stats" -> Line(<<VB.stats>> \o c.keys)
    [] c.verb = "cache_memlimit" -> Line(<<VB.cache_memlimit, c.limit>> \o NR(c))
    [] c.verb \in {"version", "quit"} -> Line(<<VB[c.verb]>>)
    [] c.verb = "shutdown" -> Line(<<VB.shutdown>> \o (IF c.graceful THEN <<GracefulTok>> ELSE << >>))

RECURSIVE RenderAll(_)
RenderAll(cs) == IF cs = <<>> THEN <<>> ELSE Render(Head(cs)) \o RenderAll(Tail(cs))

(******************************* tokenizer *********************************)
(* position of the first LF at or after i, 0 if there is none *)
FindLF(b, i) == LET S == {j \in i..Len(b) : b[j] = LF}
                IN IF S = {} THEN 0 ELSE CHOOSE j \in S : \A k \in S : j <= k

(* maximal runs of non-space bytes, in order *)
Tokens(line) ==
  LET n == Len(line)
      starts == {i \in 1..n : line[i] # SP /\ (i = 1 \/ line[i - 1] = SP)}
      ends == {i \in 1..n : line[i] # SP /\ (i = n \/ line[i + 1] = SP)}
      Kth(S, k) == CHOOSE x \in S : Cardinality({y \in S : y < x}) = k - 1
  IN [k \in 1..Cardinality(starts) |-> SubSeq(line, Kth(starts, k), Kth(ends, k))]

Err(why) == [verb |-> "PARSE-ERROR", why |-> why]
KeyOK(k) == Len(k) <= KeyMax        \* a token is never empty and holds no space / LF by construction

(* a has n mandatory tokens, optionally followed by exactly "noreply": <<ok, noreply>> *)
Tail1(a, n) == IF Len(a) = n THEN <<TRUE, FALSE>>
               ELSE IF Len(a) = n + 1 /\ a[n + 1] = NoreplyTok THEN <<TRUE, TRUE>>
               ELSE <<FALSE, FALSE>>

(* a storage command line; the data block is attached by the caller *)
ParseLine(toks) ==
  IF toks = <<>> THEN Err("empty line")
  ELSE LET v == VerbOf(toks[1])
           a == Tail(toks)
       IN
  CASE v \in StorageVerbs ->
         LET n == IF v = "cas" THEN 5 ELSE 4
             t == Tail1(a, n)
         IN IF ~t[1] THEN Err("bad token count")
            ELSE IF ~(KeyOK(a[1]) /\ IsU32(a[2]) /\ IsI64(a[3]) /\ IsLen(a[4])) THEN Err("bad command line format")
            ELSE IF v = "cas" /\ ~IsU64(a[5]) THEN Err("bad command line format")
            ELSE [verb |-> v, key |-> a[1], flags |-> Canon(a[2]), exptime |-> Canon(a[3]),
                  data |-> Canon(a[4]),       \* placeholder: the announced length, replaced by the block
                  noreply |-> t[2], cas |-> IF v = "cas" THEN Canon(a[5]) ELSE <<>>]
    [] v \in {"get", "gets"} ->
         IF a = <<>> \/ \E i \in DOMAIN a : ~KeyOK(a[i]) THEN Err("bad get")
         ELSE [verb |-> v, keys |-> a, exptime |-> <<>>, noreply |-> FALSE]
    [] v \in {"gat", "gats"} ->
         IF Len(a) < 2 \/ ~IsI64(a[1]) \/ \E i \in 2..Len(a) : ~KeyOK(a[i]) THEN Err("bad gat")
         ELSE [verb |-> v, keys |-> Tail(a), exptime |-> Canon(a[1]), noreply |-> FALSE]
    [] v = "delete" ->
         LET b == IF Len(a) >= 2 /\ a[2] = <<48>> THEN <<a[1]>> \o SubSeq(a, 3, Len(a)) ELSE a   \* "delete <key> 0"
             t == Tail1(b, 1)
         IN IF ~t[1] \/ ~KeyOK(b[1]) THEN Err("bad delete")
            ELSE [verb |-> v, key |-> b[1], noreply |-> t[2]]
    [] v \in {"incr", "decr"} ->
         LET t == Tail1(a, 2)
         IN IF ~t[1] \/ ~KeyOK(a[1]) THEN Err("bad incr")
            ELSE IF ~IsU64(a[2]) THEN Err("invalid numeric delta argument")
            ELSE [verb |-> v, key |-> a[1], delta |-> Canon(a[2]), noreply |-> t[2]]
    [] v = "touch" ->
         LET t == Tail1(a, 2)
         IN IF ~t[1] \/ ~KeyOK(a[1]) \/ ~IsI64(a[2]) THEN Err("bad touch")
            ELSE [verb |-> v, key |-> a[1], exptime |-> Canon(a[2]), noreply |-> t[2]]
    [] v = "flush_all" ->
         LET nr == a # <<>> /\ a[Len(a)] = NoreplyTok
             b == IF nr THEN SubSeq(a, 1, Len(a) - 1) ELSE a
         IN IF Len(b) > 1 \/ (b # <<>> /\ ~IsI64(b[1])) THEN Err("bad flush_all")
            ELSE [verb |-> v, delay |-> IF b = <<>> THEN <<48>> ELSE Canon(b[1]), noreply |-> nr]
    [] v = "stats" -> [verb |-> v, keys |-> a, exptime |-> <<>>, noreply |-> FALSE]
    [] v = "cache_memlimit" ->
         LET t == Tail1(a, 1)
         IN IF ~t[1] \/ ~IsU64(a[1]) THEN Err("bad cache_memlimit")
            ELSE [verb |-> v, limit |-> Canon(a[1]), noreply |-> t[2]]
    [] v \in {"version", "quit"} ->
         IF a # <<>> THEN Err("trailing tokens") ELSE [verb |-> v, noreply |-> (v = "quit")]
    [] v = "shutdown" ->
         IF a \notin {<<>>, <<GracefulTok>>} THEN Err("bad shutdown")
         ELSE [verb |-> v, graceful |-> a # <<>>, noreply |-> FALSE]
    [] OTHER -> Err("unknown command")

(* [cmds |-> commands read so far, left |-> bytes that do not complete a command] *)
RECURSIVE Tok(_, _, _)
Tok(b, i, acc) ==
  LET p == FindLF(b, i) IN
  IF p = 0 THEN [cmds |-> acc, left |-> Len(b) - i + 1]
  ELSE LET line0 == SubSeq(b, i, p - 1)
           line == IF line0 # <<>> /\ line0[Len(line0)] = CR THEN SubSeq(line0, 1, Len(line0) - 1) ELSE line0
           c == ParseLine(Tokens(line))
       IN IF c.verb \in StorageVerbs
            THEN LET n == DecVal(c.data) IN
                 IF p + n + 2 > Len(b) THEN [cmds |-> acc, left |-> Len(b) - i + 1]     \* waiting for the data block
                 ELSE IF SubSeq(b, p + n + 1, p + n + 2) = <<CR, LF>>
                   THEN Tok(b, p + n + 3, Append(acc, [c EXCEPT !.data = SubSeq(b, p + 1, p + n)]))
                   ELSE (* "CLIENT_ERROR bad data chunk", then the server swallows up to the next newline *)
                        LET q == FindLF(b, p + n + 3)
                        IN Tok(b, IF q = 0 THEN Len(b) + 1 ELSE q + 1, Append(acc, Err("bad data chunk")))
            ELSE Tok(b, p + 1, Append(acc, c))

Tokenize(b) == Tok(b, 1, <<>>)
=============================================================================
