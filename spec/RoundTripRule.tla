--------------------------- MODULE RoundTripRule ---------------------------
(***************************************************************************)
(* C04 contract: what is stored is what is fetched.                        *)
(* The monitor keeps the abstract content of the server as a map           *)
(*   wire key (prefix + encoded key, computed here by KeyRule) -> value id  *)
(* and requires of every fetch that it returns exactly the present         *)
(* requested keys, each once, under the caller's own key object, with the   *)
(* value stored under that key (observed equal AND of the same type), and   *)
(* that the server saw the prefixed key.                                    *)
(*                                                                         *)
(* events                                                                  *)
(*  [e |-> "store", key, vid, ok, wirekey]   a successful store of value id *)
(*      vid under `key`; wirekey = the key the server received              *)
(*  [e |-> "fetch", keys, items]  keys: requested key objects in order;     *)
(*      items: one <<ki, vid, eq, ty>> per returned entry: ki = index of the *)
(*      requested key object the entry is keyed by (0 = some other object), *)
(*      vid = id of the stored value it equals (0 = none), eq / ty = equal  *)
(*      and same exact type as that stored value                            *)
(* header: [unicode, prefix]                                                *)
(***************************************************************************)
EXTENDS KeyRule

TMonInit(h) == [unicode |-> h.unicode, prefix |-> h.prefix, st |-> [k \in {} |-> 0]]
WK(m, key) == Wire(key, m.unicode, m.prefix)
Present(m, key) == WK(m, key) \in DOMAIN m.st

TMonClauses(m, ev) ==
  CASE ev.e = "store" ->
         << <<"C04-prefix-applied-on-the-wire", ev.ok => ev.wirekey = WK(m, ev.key)>> >>
    [] ev.e = "fetch" ->
         (* the requested collection may name the same (wire) key more than once: it is still returned once *)
         LET want == { i \in DOMAIN ev.keys : Present(m, ev.keys[i]) }
             got == { ev.items[j][1] : j \in DOMAIN ev.items }
             WKI(j) == IF ev.items[j][1] \in DOMAIN ev.keys THEN WK(m, ev.keys[ev.items[j][1]]) ELSE <<>>
         IN << <<"C04-entries-are-keyed-by-the-callers-key-objects", \A j \in DOMAIN ev.items : ev.items[j][1] # 0>>,
               <<"C04-every-present-requested-key-is-returned",
                     \A i \in want : \E j \in DOMAIN ev.items : WKI(j) = WK(m, ev.keys[i])>>,
               <<"C04-no-absent-key-is-returned", \A j \in DOMAIN ev.items : ev.items[j][1] = 0 \/ ev.items[j][1] \in want>>,
               <<"C04-each-key-exactly-once", \A j1, j2 \in DOMAIN ev.items : j1 # j2 => (WKI(j1) # WKI(j2) /\ ev.items[j1][1] # ev.items[j2][1])>>,
               <<"C04-value-is-the-one-stored-under-that-key",
                     \A j \in DOMAIN ev.items : (ev.items[j][1] \in want) =>
                         ev.items[j][2] = m.st[WK(m, ev.keys[ev.items[j][1]])]>>,
               <<"C04-value-comes-back-equal", \A j \in DOMAIN ev.items : ev.items[j][3]>>,
               <<"C04-value-comes-back-with-the-same-type", \A j \in DOMAIN ev.items : ev.items[j][4]>> >>
    [] OTHER -> << <<"known-event", FALSE>> >>

TMonEffect(m, ev) ==
  IF ev.e = "store" /\ ev.ok
    THEN [m EXCEPT !.st = [k \in DOMAIN m.st \cup {WK(m, ev.key)} |-> IF k = WK(m, ev.key) THEN ev.vid ELSE m.st[k]]]
    ELSE m
TMonFinal(m) == <<>>
=============================================================================
