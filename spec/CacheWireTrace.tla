-------------------------- MODULE CacheWireTrace --------------------------
(***************************************************************************)
(* C05 trace validation with the wire-level model bound to the code as     *)
(* well: every recorded call is judged by the abstract cache (CacheRule,   *)
(* the contract), and -- where the harness could record them -- the        *)
(* commands the real client put on the wire are compared with Cmds(ev) of  *)
(* spec/ClientOps.tla, the as-coded protocol table that Cache.tla proves   *)
(* to refine the abstract cache.  A difference there is MODEL-DRIFT        *)
(* (reported, never an alarm): another command sequence with the same      *)
(* results is a refactoring.                                               *)
(***************************************************************************)
EXTENDS ClientOps, TraceRun

WireOps == {"set", "add", "replace", "append", "prepend", "cas", "set_many", "get", "gets", "gat", "gats",
            "get_many", "gets_many", "delete", "delete_many", "incr", "decr", "touch", "flush_all"}

WireClauses(m, ev) ==
  CacheMonClauses(m, ev) \o
  (IF ev.e = "op" /\ "wcmds" \in DOMAIN ev /\ ev.op \in WireOps
     THEN << <<"DRIFT-wire-commands-as-ClientOps-predicts", ev.wcmds = Cmds(ev)>> >>
     ELSE <<>>)
=============================================================================
