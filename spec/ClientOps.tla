------------------------------ MODULE ClientOps ------------------------------
(***************************************************************************)
(* The client's protocol tables as a specification (Tier B of C05 at the   *)
(* wire level): for every API operation                                    *)
(*   Cmds(ev)            the text-protocol command(s) the method sends      *)
(*   ServerReply(c, cmd) what a faithful memcached answers and how its      *)
(*                       store changes (protocol.txt semantics per verb)    *)
(*   Interpret(ev, reps) the value the method returns for those replies     *)
(*                       (STORE_RESULTS_VALUE, DELETED / TOUCHED / OK,      *)
(*                       VALUE ... END, counters, noreply constants)        *)
(* RunWire composes them.  Cache.tla checks, in every reachable state and   *)
(* for every operation of its alphabet, that the composition equals the     *)
(* abstract cache CApply (spec/CacheRule.tla): client + server refine the   *)
(* "map with expiry and cas versions".  The verbs used here are the ones    *)
(* C02's WireRule requires on the wire (VerbOf is shared).                  *)
(***************************************************************************)
EXTENDS CacheRule

VerbOf(op) == CASE op = "set_many" -> "set" [] op = "delete_many" -> "delete" [] op = "get_many" -> "get"
                [] op = "gets_many" -> "gets" [] OTHER -> op

Cmd(verb, k, v, exp, nr, cas, delta, keys) ==
  [verb |-> verb, k |-> k, v |-> v, exp |-> exp, nr |-> nr, cas |-> cas, delta |-> delta, keys |-> keys]

(* what each public method puts on the wire *)
Cmds(ev) ==
  CASE ev.op \in {"set", "add", "replace", "append", "prepend", "cas"} ->
         << Cmd(ev.op, ev.k, ev.v, ev.exp, ev.nr, ev.cas, 0, <<>>) >>
    [] ev.op = "set_many" ->
         [i \in DOMAIN ev.items |-> Cmd("set", ev.items[i][1], ev.items[i][2], ev.exp, ev.nr, 0, 0, <<>>)]
    [] ev.op \in {"get", "gets"} -> << Cmd(ev.op, "", <<>>, 0, FALSE, 0, 0, <<ev.k>>) >>
    [] ev.op \in {"gat", "gats"} -> << Cmd(ev.op, "", <<>>, ev.exp, FALSE, 0, 0, <<ev.k>>) >>
    [] ev.op \in {"get_many", "gets_many"} ->
         IF ev.keys = <<>> THEN <<>> ELSE << Cmd(VerbOf(ev.op), "", <<>>, 0, FALSE, 0, 0, ev.keys) >>
    [] ev.op = "delete" -> << Cmd("delete", ev.k, <<>>, 0, ev.nr, 0, 0, <<>>) >>
    [] ev.op = "delete_many" -> [i \in DOMAIN ev.keys |-> Cmd("delete", ev.keys[i], <<>>, 0, ev.nr, 0, 0, <<>>)]
    [] ev.op \in {"incr", "decr"} -> << Cmd(ev.op, ev.k, <<>>, 0, ev.nr, 0, ev.delta, <<>>) >>
    [] ev.op = "touch" -> << Cmd("touch", ev.k, <<>>, ev.exp, ev.nr, 0, 0, <<>>) >>
    [] ev.op = "flush_all" -> << Cmd("flush_all", "", <<>>, 0, ev.nr, 0, 0, <<>>) >>
    [] OTHER -> <<>>

(* a faithful memcached, verb by verb: [c, rep]; rep "none" when the command carried noreply *)
Line(x) == [t |-> "line", s |-> x]
Rep(cmd, r) == IF cmd.nr THEN [t |-> "none"] ELSE r
IsLine(rep, x) == rep.t = "line" /\ rep.s = x
RECURSIVE Values(_, _, _, _)
Values(c, keys, withcas, touchexp) ==
  IF keys = <<>> THEN <<>>
  ELSE LET k == Head(keys) IN
       (IF Live(c, k) THEN << [k |-> k, v |-> c.st[k].v, cas |-> IF withcas THEN c.st[k].cas ELSE 0] >> ELSE <<>>)
       \o Values(c, Tail(keys), withcas, touchexp)
RECURSIVE TouchAll(_, _, _)
TouchAll(c, keys, e) == IF keys = <<>> THEN c ELSE TouchAll(Touch(c, Head(keys), e), Tail(keys), e)

ServerReply(c, cmd) ==
  LET k == cmd.k IN
  CASE cmd.verb = "set" -> [c |-> Store(c, k, cmd.v, cmd.exp), rep |-> Rep(cmd, Line("STORED"))]
    [] cmd.verb = "add" -> IF Live(c, k) THEN [c |-> c, rep |-> Rep(cmd, Line("NOT_STORED"))]
                                        ELSE [c |-> Store(c, k, cmd.v, cmd.exp), rep |-> Rep(cmd, Line("STORED"))]
    [] cmd.verb = "replace" -> IF Live(c, k) THEN [c |-> Store(c, k, cmd.v, cmd.exp), rep |-> Rep(cmd, Line("STORED"))]
                                            ELSE [c |-> c, rep |-> Rep(cmd, Line("NOT_STORED"))]
    [] cmd.verb \in {"append", "prepend"} ->
         IF Live(c, k)
           THEN [c |-> Put([c EXCEPT !.ctr = c.ctr + 1], k,
                           [c.st[k] EXCEPT !.v = IF cmd.verb = "append" THEN c.st[k].v \o cmd.v ELSE cmd.v \o c.st[k].v,
                                           !.cas = c.ctr + 1]), rep |-> Rep(cmd, Line("STORED"))]
           ELSE [c |-> c, rep |-> Rep(cmd, Line("NOT_STORED"))]
    [] cmd.verb = "cas" ->
         IF ~Live(c, k) THEN [c |-> c, rep |-> Rep(cmd, Line("NOT_FOUND"))]
         ELSE IF c.st[k].cas # cmd.cas THEN [c |-> c, rep |-> Rep(cmd, Line("EXISTS"))]
         ELSE [c |-> Store(c, k, cmd.v, cmd.exp), rep |-> Rep(cmd, Line("STORED"))]
    [] cmd.verb \in {"get", "gets"} -> [c |-> c, rep |-> [t |-> "values", items |-> Values(c, cmd.keys, cmd.verb = "gets", 0)]]
    [] cmd.verb \in {"gat", "gats"} ->
         [c |-> TouchAll(c, cmd.keys, cmd.exp), rep |-> [t |-> "values", items |-> Values(c, cmd.keys, cmd.verb = "gats", cmd.exp)]]
    [] cmd.verb = "delete" -> IF Live(c, k) THEN [c |-> Del(c, k), rep |-> Rep(cmd, Line("DELETED"))]
                                           ELSE [c |-> c, rep |-> Rep(cmd, Line("NOT_FOUND"))]
    [] cmd.verb \in {"incr", "decr"} ->
         IF ~Live(c, k) THEN [c |-> c, rep |-> Rep(cmd, Line("NOT_FOUND"))]
         ELSE IF ~IsNum(c.st[k].v) THEN [c |-> c, rep |-> Rep(cmd, Line("CLIENT_ERROR"))]
         ELSE LET cur == ToNat(c.st[k].v)
                  new == IF cmd.verb = "incr" THEN cur + cmd.delta ELSE IF cur > cmd.delta THEN cur - cmd.delta ELSE 0
              IN [c |-> Put([c EXCEPT !.ctr = c.ctr + 1], k, [c.st[k] EXCEPT !.v = ToDigits(new), !.cas = c.ctr + 1]),
                  rep |-> Rep(cmd, [t |-> "num", n |-> new])]
    [] cmd.verb = "touch" -> IF Live(c, k) THEN [c |-> Touch(c, k, cmd.exp), rep |-> Rep(cmd, Line("TOUCHED"))]
                                          ELSE [c |-> c, rep |-> Rep(cmd, Line("NOT_FOUND"))]
    [] cmd.verb = "flush_all" -> [c |-> [c EXCEPT !.st = [x \in DOMAIN c.st |-> Absent]], rep |-> Rep(cmd, Line("OK"))]
    [] OTHER -> [c |-> c, rep |-> Line("ERROR")]

RECURSIVE Exchange(_, _, _)
Exchange(c, cmds, reps) ==
  IF cmds = <<>> THEN [c |-> c, reps |-> reps]
  ELSE LET r == ServerReply(c, Head(cmds)) IN Exchange(r.c, Tail(cmds), Append(reps, r.rep))

(* the client's reply tables *)
StoreValue(rep) == CASE IsLine(rep, "STORED") -> B(TRUE) [] IsLine(rep, "NOT_STORED") -> B(FALSE) [] IsLine(rep, "EXISTS") -> B(FALSE)
                     [] IsLine(rep, "NOT_FOUND") -> None [] OTHER -> [t |-> "exc", x |-> "MemcacheUnknownError"]
ItemOf(items, k) == IF \E i \in DOMAIN items : items[i].k = k THEN (CHOOSE it \in { items[i] : i \in DOMAIN items } : it.k = k) ELSE Absent

(* the method fills a dict keyed by the caller's key: a VALUE block for a key named twice overwrites the earlier one *)
LastPerKey(items) == LET idx == SelectSeq([i \in DOMAIN items |-> i],
                                          LAMBDA i : ~\E j \in (i + 1)..Len(items) : items[j].k = items[i].k)
                     IN [n \in DOMAIN idx |-> items[idx[n]]]
Interpret(ev, reps) ==
  LET nr == ev.nr IN
  CASE ev.op \in {"set", "add", "replace", "append", "prepend", "cas"} -> IF nr THEN B(TRUE) ELSE StoreValue(reps[1])
    [] ev.op = "set_many" ->
         IF nr THEN [t |-> "keys", ks |-> <<>>]
         ELSE LET failed == SelectSeq([i \in DOMAIN ev.items |-> i], LAMBDA i : StoreValue(reps[i]) # B(TRUE))
              IN [t |-> "keys", ks |-> [j \in DOMAIN failed |-> ev.items[failed[j]][1]]]
    [] ev.op \in {"get", "gat"} ->
         LET it == ItemOf(reps[1].items, ev.k) IN IF it = Absent THEN [t |-> "dflt"] ELSE Val(it.v)
    [] ev.op \in {"gets", "gats"} ->
         LET it == ItemOf(reps[1].items, ev.k) IN
         IF it = Absent THEN [t |-> "pair", a |-> [t |-> "dflt"], b |-> [t |-> "casdflt"]]
                        ELSE [t |-> "pair", a |-> Val(it.v), b |-> [t |-> "cas", n |-> it.cas]]
    [] ev.op = "get_many" ->
         IF ev.keys = <<>> THEN [t |-> "map", m |-> <<>>]
         ELSE LET its == LastPerKey(reps[1].items) IN [t |-> "map", m |-> [i \in DOMAIN its |-> <<its[i].k, Val(its[i].v)>>]]
    [] ev.op = "gets_many" ->
         IF ev.keys = <<>> THEN [t |-> "map", m |-> <<>>]
         ELSE LET its == LastPerKey(reps[1].items)
              IN [t |-> "map", m |-> [i \in DOMAIN its |->
                      <<its[i].k, [t |-> "pair", a |-> Val(its[i].v), b |-> [t |-> "cas", n |-> its[i].cas]]>>]]
    [] ev.op = "delete" -> IF nr THEN B(TRUE) ELSE B(IsLine(reps[1], "DELETED"))
    [] ev.op = "delete_many" -> B(TRUE)
    [] ev.op \in {"incr", "decr"} ->
         IF nr THEN None
         ELSE IF IsLine(reps[1], "NOT_FOUND") THEN None
         ELSE IF IsLine(reps[1], "CLIENT_ERROR") THEN [t |-> "exc", x |-> "MemcacheClientError"]
         ELSE [t |-> "int", n |-> reps[1].n]
    [] ev.op = "touch" -> IF nr THEN B(TRUE) ELSE B(IsLine(reps[1], "TOUCHED"))
    [] ev.op = "flush_all" -> IF nr THEN B(TRUE) ELSE B(IsLine(reps[1], "OK"))
    [] OTHER -> [t |-> "unknown-op"]

(* two stores are the same map: no entry, an explicit "absent" entry and an expired item are the same thing *)
(* (an expired item can never become visible again)                                                      *)
Entry(c, k) == IF Live(c, k) THEN c.st[k] ELSE Absent
StoreEq(x, y) == /\ x.now = y.now /\ x.ctr = y.ctr
                 /\ \A k \in DOMAIN x.st \cup DOMAIN y.st : Entry(x, k) = Entry(y, k)

RunWire(c, ev) == LET x == Exchange(c, Cmds(ev), <<>>) IN [c |-> x.c, res |-> Interpret(ev, x.reps)]
=============================================================================
