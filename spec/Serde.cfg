SPECIFICATION Spec
INVARIANT ModelOK
CHECK_DEADLOCK FALSE
