------------------------------ MODULE PoolRule ------------------------------
(***************************************************************************)
(* C08 contract for ObjectPool / PooledClient under concurrent use, as a    *)
(* monitor over one interleaved execution:                                  *)
(*   call(t, m, o) / ret(t, m, o) / raise(t, m, x)   pool API boundaries     *)
(*       m in get | release | destroy | clear; o = object id (0 if none)     *)
(*   create(t, o)  the creator ran;  close(t, o)  after_remove ran           *)
(*   snap(used, free)  consistent view of the pool at a scheduling point     *)
(*   deadlock      all live threads are blocked                             *)
(*   end           all threads are done                                     *)
(*   tick(d)       virtual time passes (sequential pool histories of C09)    *)
(* header [max, idle]   (idle = idle_timeout, 0: connections never expire)   *)
(***************************************************************************)
EXTENDS Naturals, Integers, Sequences, FiniteSets

SeqSet(s) == { s[i] : i \in DOMAIN s }
NoDup(s) == Cardinality(SeqSet(s)) = Len(s)

QMonInit(h) == [max |-> h.max, held |-> [o \in {} |-> 0], closed |-> [o \in {} |-> 0], created |-> {},
                inget |-> {}, sawfull |-> {}, used |-> <<>>, free |-> <<>>,
                deadatcall |-> [t \in {} |-> {}],        \* connections already closed when thread t called get
                idle |-> IF "idle" \in DOMAIN h THEN h.idle ELSE 0, now |-> 0,
                rel |-> [o \in {} |-> 0]]                \* time of the last release of a connection
Get(f, x) == IF x \in DOMAIN f THEN f[x] ELSE 0
Set(f, x, v) == [y \in DOMAIN f \cup {x} |-> IF y = x THEN v ELSE f[y]]

QMonClauses(m, ev) ==
  CASE ev.e = "snap" ->
         << <<"C08-pool-never-lists-a-connection-twice", NoDup(ev.used) /\ NoDup(ev.free) /\ SeqSet(ev.used) \cap SeqSet(ev.free) = {}>>,
            <<"C08-pool-never-exceeds-max_pool_size", Len(ev.used) + Len(ev.free) <= m.max>> >>
    [] ev.e = "call" ->
         (* a connection is given back (released or destroyed) by the thread that holds it, or by nobody's holder *)
         (* (a second give-back of a connection nobody has taken since is harmless); never out of another thread's hands *)
         << <<"C08-a-connection-is-given-back-only-by-its-holder",
                  ev.m \in {"release", "destroy"} => Get(m.held, ev.o) \in {0, ev.t}>> >>
    [] ev.e = "ret" ->
         << <<"C08-a-connection-is-held-by-at-most-one-thread",
                  ev.m = "get" => Get(m.held, ev.o) = 0>>,
            <<"C08-a-closed-connection-is-never-handed-out",
                  (ev.m = "get" /\ ev.t \in DOMAIN m.deadatcall) => ev.o \notin m.deadatcall[ev.t]>>,
            <<"C09-a-connection-idle-longer-than-the-timeout-is-never-handed-out",
                  (ev.m = "get" /\ m.idle > 0 /\ ev.o \in DOMAIN m.rel) => ~(m.now - m.rel[ev.o] > m.idle)>>,
            (* expiry is acted on at a checkout: once get() has returned, nothing that has sat in the pool longer *)
            (* than the timeout is still pooled (sequential histories: the last snapshot is the pool after get)   *)
            <<"C09-after-a-checkout-no-idle-expired-connection-stays-pooled",
                  (ev.m = "get" /\ m.idle > 0) =>
                     \A o \in SeqSet(m.free) : o \in DOMAIN m.rel => ~(m.now - m.rel[o] > m.idle)>> >>
    [] ev.e = "tick" -> << >>
    [] ev.e = "raise" ->
         (* m = "get": the pool's own checkout; m = "api": what escaped from a PooledClient call -- the capacity error, or *)
         (* a connection / memcached / input error of that call, never an internal error of the pool                    *)
         << <<"C08-no-internal-error-from-the-pool",
                  IF ev.m = "api" THEN ev.x \in {"capacity", "conn"}
                  ELSE ev.m = "get" /\ ev.x = "capacity" /\ ev.t \in m.sawfull>> >>
    [] ev.e = "create" -> << <<"create-new-object", ev.o \notin m.created>> >>
    [] ev.e = "close" ->
         << <<"C08-every-connection-closed-at-most-once", Get(m.closed, ev.o) = 0>>,
            <<"C08-an-idle-pooled-connection-is-not-closed",
                  ev.o \notin SeqSet(m.free) \/ (m.idle > 0 /\ ev.o \in DOMAIN m.rel /\ m.now - m.rel[ev.o] > m.idle)>> >>
    [] ev.e = "deadlock" -> << <<"C08-no-schedule-deadlocks", FALSE>> >>
    [] ev.e = "end" ->
         << <<"C08-at-the-end-every-connection-is-idle-in-the-pool-or-closed-once",
                  \A o \in m.created : (o \in SeqSet(m.free)) # (Get(m.closed, o) = 1)>>,
            <<"C08-nothing-checked-out-at-the-end", m.used = <<>>>> >>
    [] OTHER -> << <<"known-event", FALSE>> >>

QMonEffect(m, ev) ==
  CASE ev.e = "snap" -> [m EXCEPT !.used = ev.used, !.free = ev.free,
                                  !.sawfull = IF Len(ev.used) >= m.max THEN m.sawfull \cup m.inget ELSE m.sawfull]
    [] ev.e = "call" ->
         IF ev.m = "get" THEN [m EXCEPT !.inget = m.inget \cup {ev.t},
                                        !.deadatcall = Set(m.deadatcall, ev.t, { o \in DOMAIN m.closed : m.closed[o] > 0 }),
                                        !.sawfull = IF Len(m.used) >= m.max THEN m.sawfull \cup {ev.t} ELSE m.sawfull \ {ev.t}]
         ELSE IF ev.m \in {"release", "destroy"} THEN [m EXCEPT !.held = Set(m.held, ev.o, 0)]
         ELSE m
    [] ev.e = "ret" ->
         IF ev.m = "get" THEN [m EXCEPT !.held = Set(m.held, ev.o, ev.t), !.inget = m.inget \ {ev.t}]
         ELSE IF ev.m = "release" /\ m.idle > 0 THEN [m EXCEPT !.rel = Set(m.rel, ev.o, m.now)]
         ELSE m
    [] ev.e = "tick" -> [m EXCEPT !.now = m.now + ev.d]
    [] ev.e = "raise" -> [m EXCEPT !.inget = m.inget \ {ev.t}]
    [] ev.e = "create" -> [m EXCEPT !.created = m.created \cup {ev.o}]
    [] ev.e = "close" -> [m EXCEPT !.closed = Set(m.closed, ev.o, Get(m.closed, ev.o) + 1)]
    [] OTHER -> m
QMonFinal(m) == <<>>
=============================================================================
