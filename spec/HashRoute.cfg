SPECIFICATION Spec
CONSTANTS
  NServers = 2
  MaxOps = 2
  Export = FALSE
VIEW view
INVARIANT MonitorOK
CHECK_DEADLOCK FALSE
