----------------------------- MODULE ServerSpec -----------------------------
(***************************************************************************)
(* Explorer for spec/ServerSpecRule.tla: every string up to MaxLen over the *)
(* address alphabet, with and without the "unix:" prefix.  TLC checks that  *)
(* normalize_server_spec AS CODED agrees with the intent on every           *)
(* well-formed spelling (Agree) and is total (Total), and exports each      *)
(* string with the predicted result for the replay on the real function.    *)
(***************************************************************************)
EXTENDS ServerSpecRule, TLC, Json

CONSTANTS MaxLen
Strs == UNION { [1..n -> Alpha] : n \in 0..MaxLen }

VARIABLES unixp, s, done
vars == <<unixp, s, done>>
Init == unixp \in BOOLEAN /\ s \in Strs /\ done = FALSE
Next == /\ ~done /\ done' = TRUE /\ UNCHANGED <<unixp, s>>
        /\ PrintT(ToJson([tag |-> "EXP", unixp |-> unixp, s |-> s, norm |-> Norm(unixp, s), wf |-> WellFormed(unixp, s)]))
Spec == Init /\ [][Next]_vars

Agree == WellFormed(unixp, s) => Norm(unixp, s) = Intent(unixp, s)
Total == Norm(unixp, s)[1] \in {"tcp", "unix", "ValueError"}
(* two well-formed spellings with the same meaning normalise to the same server: follows from Agree; stated for the record *)
=============================================================================
