------------------------------ MODULE WrapRule ------------------------------
(***************************************************************************)
(* C16 contract: a PooledClient, a single-server HashClient (pooled or not) *)
(* and a RetryingClient around a Client send the same commands and return   *)
(* the same result / raise the same kind of error as a plain Client          *)
(* configured identically, in every server state.                           *)
(* event [e |-> "cmp", op, attempts, ref, got]: ref / got = what the plain   *)
(*   Client / the wrapper stack did for the same call in the same history:   *)
(*   [cmds (canonical command records), res (tagged result), conn = [io: the  *)
(*   timeouts in force for send/recv, est: connect timeout and socket options *)
(*   used when a connection was established during the call]]                *)
(* A RetryingClient configured with `attempts` may repeat a failing call:    *)
(* its stream is then the plain stream repeated (that is C17's subject).     *)
(***************************************************************************)
EXTENDS Naturals, Sequences, FiniteSets

SeqSet(s) == { s[i] : i \in DOMAIN s }
SameRes(a, b) == IF a.t = "map" /\ b.t = "map" THEN Len(a.m) = Len(b.m) /\ SeqSet(a.m) = SeqSet(b.m) ELSE a = b
RECURSIVE Rep(_, _)
Rep(s, n) == IF n = 0 THEN <<>> ELSE s \o Rep(s, n - 1)

XMonInit(h) == [n |-> 0]
XMonClauses(m, ev) ==
  << <<"C16-same-commands-as-a-plain-Client",
        ev.got.cmds = ev.ref.cmds \/ (ev.ref.res.t = "exc" /\ \E k \in 1..ev.attempts : ev.got.cmds = Rep(ev.ref.cmds, k))>>,
     <<"C16-same-result-or-same-kind-of-error-as-a-plain-Client", SameRes(ev.got.res, ev.ref.res)>>,
     (* (a call that puts no command on the wire -- an empty batch -- need not touch a connection at all) *)
     <<"C16-same-io-timeout-as-a-plain-Client", (ev.got.cmds # <<>> \/ ev.ref.cmds # <<>>) => ev.got.conn.io = ev.ref.conn.io>>,
     <<"C16-same-connect-timeout-and-socket-options-as-a-plain-Client",
        (ev.got.conn.est # <<>> /\ ev.ref.conn.est # <<>>) => ev.got.conn.est = ev.ref.conn.est>> >>
XMonEffect(m, ev) == [m EXCEPT !.n = m.n + 1]
XMonFinal(m) == <<>>
=============================================================================
