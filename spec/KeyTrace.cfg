SPECIFICATION TraceSpec
CONSTANTS
  MonInit <- KMonInit
  MonClauses <- KMonClauses
  MonEffect <- KMonEffect
  MonFinal <- KMonFinal
CHECK_DEADLOCK FALSE
