SPECIFICATION Spec
INVARIANT GoodFetchAccepted
INVARIANT MissRejected
INVARIANT WrongValueRejected
INVARIANT WrongTypeRejected
INVARIANT ForeignKeyRejected
CHECK_DEADLOCK FALSE
INVARIANT DupOnceAccepted
INVARIANT DupTwiceRejected
INVARIANT DupMissRejected
