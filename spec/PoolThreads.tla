----------------------------- MODULE PoolThreads -----------------------------
(***************************************************************************)
(* C08 AS-CODED MODEL of pymemcache/pool.py ObjectPool at statement level:  *)
(* every statement of get / release / destroy / clear is one step of the    *)
(* calling thread; the lock is acquired and released where the code does.   *)
(* Threads run programs of operations: "ok" (get, release), "fail" (get,    *)
(* destroy), "quit" (get, destroy, release -- what PooledClient.quit does),  *)
(* "clear".  TLC explores ALL interleavings and feeds every observable      *)
(* event to the PoolRule monitor.  WithLock = FALSE removes the lock (the    *)
(* model must then violate the contract: non-vacuity).                      *)
(***************************************************************************)
EXTENDS PoolRule, TLC

CONSTANTS NT, MaxSize, Programs, WithLock

Threads == 1..NT
VARIABLES used, free, lock, pc, prog, obj, tmp, dropped, nextid, mon, bad
vars == <<used, free, lock, pc, prog, obj, tmp, dropped, nextid, mon, bad>>

RECURSIVE FeedAll(_, _, _)
FeedAll(m, b, evs) ==
  IF evs = <<>> THEN [m |-> m, b |-> b]
  ELSE LET ev == Head(evs)  cl == QMonClauses(m, ev)
           f == { cl[i][1] : i \in { j \in DOMAIN cl : ~cl[j][2] } }
       IN FeedAll(QMonEffect(m, ev), b \cup f, Tail(evs))
Feed(evs) == LET r == FeedAll(mon, bad, evs) IN mon' = r.m /\ bad' = r.b
Snap(u, f) == [e |-> "snap", used |-> u, free |-> f]

Init == /\ used = <<>> /\ free = <<>> /\ lock = 0
        /\ prog \in Programs
        /\ pc = [t \in Threads |-> "next"] /\ obj = [t \in Threads |-> 0] /\ tmp = [t \in Threads |-> <<>>]
        /\ dropped = [t \in Threads |-> FALSE] /\ nextid = 1
        /\ mon = QMonInit([max |-> MaxSize]) /\ bad = {}

Goto(t, l) == pc' = [pc EXCEPT ![t] = l]
Remove(s, x) == SelectSeq(s, LAMBDA y : y # x)
In(s, x) == \E i \in DOMAIN s : s[i] = x
Same == UNCHANGED <<used, free, lock, prog, obj, tmp, dropped, nextid>>

(* dispatch the next operation of the thread's program; a multi-call operation keeps a continuation *)
NextOp(t) ==
  /\ pc[t] = "next" /\ prog[t] # <<>>
  /\ LET op == Head(prog[t]) IN
     IF op = "clear"
       THEN /\ Goto(t, "C1") /\ Feed(<<[e |-> "call", t |-> t, m |-> "clear", o |-> 0]>>)
            /\ prog' = [prog EXCEPT ![t] = Tail(@)]
       ELSE IF op \in {"ok", "fail", "quit"}
       THEN /\ Goto(t, "G1") /\ Feed(<<[e |-> "call", t |-> t, m |-> "get", o |-> 0]>>)
            /\ prog' = [prog EXCEPT ![t] = <<(IF op = "ok" THEN "do-release" ELSE IF op = "fail" THEN "do-destroy" ELSE "do-destroy-release")>> \o Tail(@)]
       ELSE IF op = "do-release"
       THEN /\ Goto(t, "R1") /\ Feed(<<[e |-> "call", t |-> t, m |-> "release", o |-> obj[t]]>>)
            /\ prog' = [prog EXCEPT ![t] = Tail(@)]
       ELSE (* do-destroy, do-destroy-release *)
            /\ Goto(t, "D1") /\ Feed(<<[e |-> "call", t |-> t, m |-> "destroy", o |-> obj[t]]>>)
            /\ prog' = [prog EXCEPT ![t] = (IF op = "do-destroy-release" THEN <<"do-release">> ELSE <<>>) \o Tail(@)]
  /\ UNCHANGED <<used, free, lock, obj, tmp, dropped, nextid>>

Acquire(t, from, to) == /\ pc[t] = from /\ (~WithLock \/ lock = 0)
                        /\ lock' = (IF WithLock THEN t ELSE lock) /\ Goto(t, to)
                        /\ UNCHANGED <<used, free, prog, obj, tmp, dropped, nextid, mon, bad>>
Unlock == IF WithLock THEN 0 ELSE lock

(***** get *****)
G2(t) == /\ pc[t] = "G2"
         /\ IF free # <<>>
              THEN /\ obj' = [obj EXCEPT ![t] = Head(free)] /\ free' = Tail(free) /\ Goto(t, "G4")
                   /\ Feed(<<Snap(used, Tail(free))>>) /\ UNCHANGED nextid
              ELSE IF Len(used) >= MaxSize
              THEN /\ Goto(t, "Graise") /\ UNCHANGED <<obj, free, nextid, mon, bad>>
              ELSE /\ obj' = [obj EXCEPT ![t] = nextid] /\ nextid' = nextid + 1 /\ Goto(t, "G4")
                   /\ Feed(<<[e |-> "create", t |-> t, o |-> nextid]>>) /\ UNCHANGED free
         /\ UNCHANGED <<used, lock, prog, tmp, dropped>>
G4(t) == /\ pc[t] = "G4" /\ used' = Append(used, obj[t]) /\ Goto(t, "G5")
         /\ Feed(<<Snap(Append(used, obj[t]), free)>>)
         /\ UNCHANGED <<free, lock, prog, obj, tmp, dropped, nextid>>
G5(t) == /\ pc[t] = "G5" /\ lock' = Unlock /\ Goto(t, "next")
         /\ Feed(<<[e |-> "ret", t |-> t, m |-> "get", o |-> obj[t]]>>)
         /\ UNCHANGED <<used, free, prog, obj, tmp, dropped, nextid>>
Graise(t) == /\ pc[t] = "Graise" /\ lock' = Unlock /\ Goto(t, "next")
             /\ Feed(<<[e |-> "raise", t |-> t, m |-> "get", x |-> "capacity"]>>)
             /\ prog' = [prog EXCEPT ![t] = Tail(@)]         \* the operation is abandoned
             /\ UNCHANGED <<used, free, obj, tmp, dropped, nextid>>

(***** release *****)
R2(t) == /\ pc[t] = "R2"
         /\ IF In(used, obj[t]) THEN used' = Remove(used, obj[t]) /\ Goto(t, "R3") /\ Feed(<<Snap(Remove(used, obj[t]), free)>>)
                                ELSE Goto(t, "R4") /\ UNCHANGED <<used, mon, bad>>            \* ValueError, silent
         /\ UNCHANGED <<free, lock, prog, obj, tmp, dropped, nextid>>
R3(t) == /\ pc[t] = "R3" /\ free' = Append(free, obj[t]) /\ Goto(t, "R4") /\ Feed(<<Snap(used, Append(free, obj[t]))>>)
         /\ UNCHANGED <<used, lock, prog, obj, tmp, dropped, nextid>>
R4(t) == /\ pc[t] = "R4" /\ lock' = Unlock /\ Goto(t, "next")
         /\ Feed(<<[e |-> "ret", t |-> t, m |-> "release", o |-> obj[t]]>>)
         /\ UNCHANGED <<used, free, prog, obj, tmp, dropped, nextid>>

(***** destroy *****)
D2(t) == /\ pc[t] = "D2"
         /\ IF In(used, obj[t]) THEN used' = Remove(used, obj[t]) /\ dropped' = [dropped EXCEPT ![t] = TRUE]
                                     /\ Feed(<<Snap(Remove(used, obj[t]), free)>>)
                                ELSE dropped' = [dropped EXCEPT ![t] = FALSE] /\ UNCHANGED <<used, mon, bad>>
         /\ Goto(t, "D3") /\ UNCHANGED <<free, lock, prog, obj, tmp, nextid>>
D3(t) == /\ pc[t] = "D3" /\ lock' = Unlock /\ Goto(t, "D4")
         /\ UNCHANGED <<used, free, prog, obj, tmp, dropped, nextid, mon, bad>>
D4(t) == /\ pc[t] = "D4" /\ Goto(t, "next")
         /\ Feed((IF dropped[t] THEN <<[e |-> "close", t |-> t, o |-> obj[t]]>> ELSE <<>>)
                 \o <<[e |-> "ret", t |-> t, m |-> "destroy", o |-> obj[t]]>>)
         /\ UNCHANGED <<used, free, lock, prog, obj, tmp, dropped, nextid>>

(***** clear *****)
C2(t) == /\ pc[t] = "C2" /\ tmp' = [tmp EXCEPT ![t] = used \o free] /\ Goto(t, "C3")
         /\ UNCHANGED <<used, free, lock, prog, obj, dropped, nextid, mon, bad>>
C3(t) == /\ pc[t] = "C3" /\ free' = <<>> /\ Goto(t, "C4") /\ Feed(<<Snap(used, <<>>)>>)
         /\ UNCHANGED <<used, lock, prog, obj, tmp, dropped, nextid>>
C4(t) == /\ pc[t] = "C4" /\ used' = <<>> /\ Goto(t, "C5") /\ Feed(<<Snap(<<>>, free)>>)
         /\ UNCHANGED <<free, lock, prog, obj, tmp, dropped, nextid>>
C5(t) == /\ pc[t] = "C5" /\ lock' = Unlock /\ Goto(t, "C6")
         /\ UNCHANGED <<used, free, prog, obj, tmp, dropped, nextid, mon, bad>>
C6(t) == /\ pc[t] = "C6"
         /\ IF tmp[t] # <<>>
              THEN /\ Feed(<<[e |-> "close", t |-> t, o |-> Head(tmp[t])]>>) /\ tmp' = [tmp EXCEPT ![t] = Tail(@)] /\ UNCHANGED pc
              ELSE /\ Feed(<<[e |-> "ret", t |-> t, m |-> "clear", o |-> 0]>>) /\ Goto(t, "next") /\ UNCHANGED tmp
         /\ UNCHANGED <<used, free, lock, prog, obj, dropped, nextid>>

AllDone == \A t \in Threads : pc[t] = "next" /\ prog[t] = <<>>
Finish == /\ AllDone
          /\ Feed(<<Snap(used, free), [e |-> "end"]>>)
          /\ pc' = [t \in Threads |-> "done"]
          /\ UNCHANGED <<used, free, lock, prog, obj, tmp, dropped, nextid>>

Step(t) == \/ NextOp(t)
           \/ Acquire(t, "G1", "G2") \/ G2(t) \/ G4(t) \/ G5(t) \/ Graise(t)
           \/ Acquire(t, "R1", "R2") \/ R2(t) \/ R3(t) \/ R4(t)
           \/ Acquire(t, "D1", "D2") \/ D2(t) \/ D3(t) \/ D4(t)
           \/ Acquire(t, "C1", "C2") \/ C2(t) \/ C3(t) \/ C4(t) \/ C5(t) \/ C6(t)
Done == (\A t \in Threads : pc[t] = "done") /\ UNCHANGED vars       \* terminal self-loop: TLC's deadlock check then
                                                                     \* reports exactly the genuine deadlocks
Next == (\E t \in Threads : Step(t)) \/ Finish \/ Done
Spec == Init /\ [][Next]_vars

MonitorOK == bad = {}
(* the shape facts of the inductive invariant of spec/PoolInd.tla (unbounded programs, Apalache), on this bounded model *)
CriticalPCs == {"G2", "G4", "G5", "Graise", "R2", "R3", "R4", "D2", "D3", "C2", "C3", "C4", "C5"}
IndShape == /\ SeqSet(used) \cap SeqSet(free) = {} /\ NoDup(used) /\ NoDup(free)
            /\ Len(used) + Len(free) + (IF \E t \in Threads : pc[t] \in {"G4", "R3"} THEN 1 ELSE 0) <= MaxSize
            /\ \A t \in Threads : (pc[t] \in CriticalPCs) <=> (lock = t)
            /\ \A t \in Threads : pc[t] = "G4" => ~In(used, obj[t]) /\ ~In(free, obj[t])
            /\ \A t \in Threads : pc[t] = "R3" => ~In(used, obj[t]) /\ ~In(free, obj[t])
            /\ \A t, u \in Threads : (t # u /\ pc[t] \in {"G4", "G5"} /\ pc[u] \in {"G4", "G5"}) => obj[t] # obj[u]
(* "no schedule deadlocks" is TLC's own deadlock check (CHECK_DEADLOCK TRUE) *)
=============================================================================
