SPECIFICATION TraceSpec
CONSTANTS
  MonInit <- CacheMonInit
  MonClauses <- WireClauses
  MonEffect <- CacheMonEffect
  MonFinal <- CacheMonFinal
CHECK_DEADLOCK FALSE
