---------------------------- MODULE DiscoveryRule ----------------------------
(***************************************************************************)
(* C19 contract: after construction and after every reconfigure_nodes() the *)
(* AWS ElastiCache client talks to exactly the advertised nodes (by IP or   *)
(* by host name according to use_vpc, on the advertised ports).             *)
(* header [vpc]                                                             *)
(* events                                                                  *)
(*  [e |-> "advertise", nodes, error]  the endpoint will answer the next     *)
(*        config command with this node list (seq of [fqdn, ip, port]) or    *)
(*        with ERROR                                                         *)
(*  [e |-> "discover", outcome, rot, open]  construction / reconfigure ran:  *)
(*        outcome "ok" | "memcache-error" | "other:<exc>"; rot = the hasher's *)
(*        nodes as [host, port]; open = servers that still have an open      *)
(*        connection, as [host, port]                                        *)
(*  [e |-> "route", outcome, node]  a key-addressed call: the node that       *)
(*        received the command ([host, port]), outcome "ok" | "exc:<name>"    *)
(*  [e |-> "fault", node]  the environment made a call on this node fail with *)
(*        a connection error: failover (C13) may keep it out of the rotation  *)
(*        until the next reconfiguration; while every current node is in that *)
(*        state a key-addressed call may raise instead of being routed        *)
(***************************************************************************)
EXTENDS Naturals, Sequences, FiniteSets

SeqSet(s) == { s[i] : i \in DOMAIN s }
NameOf(vpc, n) == [host |-> IF vpc THEN n.ip ELSE n.fqdn, port |-> n.port]
Names(vpc, nodes) == { NameOf(vpc, nodes[i]) : i \in DOMAIN nodes }

DMonInit(h) == [vpc |-> h.vpc, adv |-> <<>>, err |-> FALSE, cur |-> {}, valid |-> FALSE, faulted |-> {}, malformed |-> FALSE]

DMonClauses(m, ev) ==
  CASE ev.e = "advertise" -> << >>
    [] ev.e = "fault" -> << >>
    [] ev.e = "discover" ->
         << <<"C19-config-ERROR-surfaces-as-a-memcached-error", (m.err /\ ~m.malformed) => ev.outcome = "memcache-error">>,
            (* a reply that is well terminated but holds no configuration at all: whatever is raised, nothing is applied *)
            <<"C19-a-reply-without-a-configuration-is-not-applied", m.malformed => ev.outcome # "ok">>,
            <<"C19-discovery-succeeds-however-the-reply-is-split", ~m.err => ev.outcome = "ok">>,
            <<"C19-rotation-equals-the-advertised-node-list",
                  (~m.err /\ ev.outcome = "ok") => (SeqSet(ev.rot) = Names(m.vpc, m.adv) /\ Len(ev.rot) = Cardinality(SeqSet(ev.rot)))>>,
            <<"C19-connections-to-replaced-nodes-are-closed",
                  (~m.err /\ ev.outcome = "ok") => SeqSet(ev.open) \subseteq Names(m.vpc, m.adv)>>,
            <<"C19-the-connection-to-the-configuration-endpoint-is-closed", "cfgopen" \in DOMAIN ev => ev.cfgopen = 0>>,
            <<"C19-no-node-is-left-with-two-open-connections",
                  (~m.err /\ ev.outcome = "ok") => Len(ev.open) = Cardinality(SeqSet(ev.open))>> >>
    [] ev.e = "route" ->
         << <<"C19-every-key-is-routed-to-a-node", (m.valid /\ ~(m.cur \subseteq m.faulted)) => ev.outcome = "ok">>,
            <<"C19-no-key-goes-to-a-node-that-is-not-advertised", (m.valid /\ ev.outcome = "ok") => ev.node \in m.cur>> >>
    [] OTHER -> << <<"known-event", FALSE>> >>

DMonEffect(m, ev) ==
  CASE ev.e = "advertise" -> [m EXCEPT !.adv = ev.nodes, !.err = ev.error,
                                       !.malformed = IF "malformed" \in DOMAIN ev THEN ev.malformed ELSE FALSE]
    [] ev.e = "discover" -> IF ev.outcome = "ok" /\ ~m.err THEN [m EXCEPT !.cur = Names(m.vpc, m.adv), !.valid = TRUE, !.faulted = {}] ELSE m
    [] ev.e = "fault" -> [m EXCEPT !.faulted = m.faulted \cup {ev.node}]
    [] OTHER -> m
DMonFinal(m) == <<>>
=============================================================================
