------------------------------ MODULE RoundTrip ------------------------------
(***************************************************************************)
(* C04 scenario grid: TLC enumerates (store op, fetch op, value class,      *)
(* serializer, key class, collection type) and, for each, walks the tiny    *)
(* abstract protocol  store -> fetch  over the RoundTripRule monitor to     *)
(* check the grid point is meaningful (the fetch must return the stored     *)
(* item); every grid point is printed for the harness to concretise.        *)
(***************************************************************************)
EXTENDS RoundTripRule, TLC, Json

StoreOps == {"set", "add", "replace", "cas", "set_many"}
FetchOps == {"get", "gets", "get_many", "gets_many", "gat", "gats"}
ValueClasses == {"bytes", "empty", "crlf", "END", "VALUE", "n4095", "n4096", "n4097", "n8192", "big", "str", "int", "obj"}
Serdes == {"none", "custom", "p0", "p1", "p2", "p3", "p4", "p5", "compressed"}
KeyClasses == {"str", "bytes", "utf8", "high", "max"}
Colls == {"list", "tuple", "set", "dictview", "iter", "listdup", "iterdup"}    \* ...dup: a key is named more than once

Valid(g) == /\ (g.v = "obj" => g.serde \notin {"none", "custom"})
            /\ (g.k = "utf8" => TRUE)

VARIABLES g, m, pc
vars == <<g, m, pc>>
Grid == { x \in [sop : StoreOps, fop : FetchOps, v : ValueClasses, serde : Serdes, k : KeyClasses, coll : Colls] : Valid(x) }

KeyOf(kc) == IF kc = "bytes" THEN [isstr |-> FALSE, u |-> <<107>>]
             ELSE IF kc = "high" THEN [isstr |-> FALSE, u |-> <<200, 255>>]
             ELSE IF kc = "utf8" THEN [isstr |-> TRUE, u |-> <<107, 233>>]
             ELSE [isstr |-> TRUE, u |-> <<107>>]

Init == g \in Grid /\ pc = "store" /\ m = TMonInit([unicode |-> (g.k = "utf8"), prefix |-> <<112, 58>>])
DoStore == /\ pc = "store"
           /\ m' = TMonEffect(m, [e |-> "store", key |-> KeyOf(g.k), vid |-> 1, ok |-> TRUE, wirekey |-> WK(m, KeyOf(g.k))])
           /\ pc' = "fetch" /\ g' = g
DoFetch == /\ pc = "fetch" /\ pc' = "done" /\ UNCHANGED <<g, m>>
           /\ PrintT(ToJson([tag |-> "EXP", g |-> g]))
Next == DoStore \/ DoFetch
Spec == Init /\ [][Next]_vars

(* after the store, a fetch of that key that returns <<1, 1, TRUE, TRUE>> is accepted, anything else is not *)
FetchEv(items) == [e |-> "fetch", keys |-> <<KeyOf(g.k)>>, items |-> items]
Bad(cl) == { cl[i][1] : i \in { j \in DOMAIN cl : ~cl[j][2] } }
GoodFetchAccepted == pc = "fetch" => Bad(TMonClauses(m, FetchEv(<< <<1, 1, TRUE, TRUE>> >>))) = {}
MissRejected      == pc = "fetch" => Bad(TMonClauses(m, FetchEv(<<>>))) # {}
WrongValueRejected == pc = "fetch" => Bad(TMonClauses(m, FetchEv(<< <<1, 2, TRUE, TRUE>> >>))) # {}
WrongTypeRejected == pc = "fetch" => Bad(TMonClauses(m, FetchEv(<< <<1, 1, TRUE, FALSE>> >>))) # {}
DupEv(items) == [e |-> "fetch", keys |-> <<KeyOf(g.k), KeyOf(g.k)>>, items |-> items]
DupOnceAccepted == pc = "fetch" => /\ Bad(TMonClauses(m, DupEv(<< <<2, 1, TRUE, TRUE>> >>))) = {}
                                   /\ Bad(TMonClauses(m, DupEv(<< <<1, 1, TRUE, TRUE>> >>))) = {}
DupTwiceRejected == pc = "fetch" => Bad(TMonClauses(m, DupEv(<< <<1, 1, TRUE, TRUE>>, <<2, 1, TRUE, TRUE>> >>))) # {}
DupMissRejected == pc = "fetch" => Bad(TMonClauses(m, DupEv(<<>>))) # {}
ForeignKeyRejected == pc = "fetch" => Bad(TMonClauses(m, FetchEv(<< <<0, 1, TRUE, TRUE>> >>))) # {}
=============================================================================
