SPECIFICATION TraceSpec
CONSTANTS
  MonInit <- PMonInit
  MonClauses <- PMonClauses
  MonEffect <- PMonEffect
  MonFinal <- PMonFinal
CHECK_DEADLOCK FALSE
