----------------------------- MODULE AwsDiscovery -----------------------------
(***************************************************************************)
(* C19 AS-CODED MODEL of AWSElastiCacheHashClient.reconfigure_nodes (as     *)
(* fixed): clients.clear(); add_server for every advertised node (creates a *)
(* client, hasher.add_node is idempotent); every old client whose key is no *)
(* longer present is removed from the hasher (ValueError swallowed when it  *)
(* was already evicted); old clients are closed; failure bookkeeping reset. *)
(* Between reconfigurations a node may be evicted by failover (out of the   *)
(* hasher, in _dead_clients) and traffic opens connections.  The environment *)
(* advertises any non-empty node list over a universe of Universe nodes, or *)
(* ERROR.  TLC checks the DiscoveryRule monitor over all sequences.         *)
(***************************************************************************)
EXTENDS DiscoveryRule, TLC, Json

CONSTANTS Universe, MaxSteps, Export, Vpc, Fixed

Node(i) == [fqdn |-> i, ip |-> 100 + i, port |-> 11211 + (i % 2)]
Lists == UNION { { s \in [1..k -> 1..Universe] : \A a, b \in 1..k : a # b => s[a] # s[b] } : k \in 1..Universe }

VARIABLES clients, hasher, dead, conns, mon, bad, hist, steps
vars == <<clients, hasher, dead, conns, mon, bad, hist, steps>>
view == <<clients, hasher, dead, conns, mon, bad, steps>>

RECURSIVE FeedAll(_, _, _)
FeedAll(m, b, evs) ==
  IF evs = <<>> THEN [m |-> m, b |-> b]
  ELSE LET ev == Head(evs)  cl == DMonClauses(m, ev)
           f == { cl[i][1] : i \in { j \in DOMAIN cl : ~cl[j][2] } }
       IN FeedAll(DMonEffect(m, ev), b \cup f, Tail(evs))
Feed(evs) == LET r == FeedAll(mon, bad, evs) IN mon' = r.m /\ bad' = r.b

Init == /\ clients = {} /\ hasher = <<>> /\ dead = {} /\ conns = {}
        /\ mon = DMonInit([vpc |-> Vpc]) /\ bad = {} /\ hist = <<>> /\ steps = 0

Name(i) == NameOf(Vpc, Node(i))
AsNames(s) == [j \in DOMAIN s |-> Name(s[j])]
AppendNew(h, l) == LET RECURSIVE f(_, _)
                       f(acc, r) == IF r = <<>> THEN acc
                                    ELSE f(IF \E j \in DOMAIN acc : acc[j] = Head(r) THEN acc ELSE Append(acc, Head(r)), Tail(r))
                   IN f(h, l)

Reconfigure(l) ==
  LET newset == { l[j] : j \in DOMAIN l }
      h1 == AppendNew(hasher, l)
      (* as coded: the keys of the OLD clients that are not advertised any more leave the hasher (the fix) *)
      h2 == IF Fixed THEN SelectSeq(h1, LAMBDA x : x \notin (clients \ newset)) ELSE h1
      dead2 == IF Fixed THEN {} ELSE dead
  IN /\ clients' = newset /\ hasher' = h2 /\ dead' = dead2
     /\ conns' = {}                                                          \* every old client is closed
     /\ Feed(<<[e |-> "advertise", nodes |-> [j \in DOMAIN l |-> Node(l[j])], error |-> FALSE],
               [e |-> "discover", outcome |-> "ok", rot |-> AsNames(h2), open |-> <<>>]>>)
     /\ hist' = Append(hist, <<"reconf", l>>)

ErrorReply == /\ Feed(<<[e |-> "advertise", nodes |-> <<>>, error |-> TRUE],
                        [e |-> "discover", outcome |-> IF Fixed THEN "memcache-error" ELSE "other:UnboundLocalError",
                         rot |-> AsNames(hasher), open |-> <<>>]>>)
              /\ hist' = Append(hist, <<"error">>)
              /\ UNCHANGED <<clients, hasher, dead, conns>>

(* traffic: a key is routed to some node of the hasher; the client dict must contain it *)
Traffic(i) == /\ \E j \in DOMAIN hasher : hasher[j] = i
              /\ conns' = IF i \in clients THEN conns \cup {i} ELSE conns
              /\ Feed(<<[e |-> "route", outcome |-> IF i \in clients THEN "ok" ELSE "exc:KeyError", node |-> Name(i)]>>)
              /\ hist' = Append(hist, <<"traffic", i>>)
              /\ UNCHANGED <<clients, hasher, dead>>

(* failover evicts a node (it stays in clients, leaves the hasher, is remembered as dead) *)
Evict(i) == /\ \E j \in DOMAIN hasher : hasher[j] = i
            /\ hasher' = SelectSeq(hasher, LAMBDA x : x # i) /\ dead' = dead \cup {i}
            /\ conns' = conns \ {i}
            /\ hist' = Append(hist, <<"evict", i>>)
            /\ Feed(<<[e |-> "fault", node |-> Name(i)]>>)
            /\ UNCHANGED clients
(* the dead-server check brings a dead node back (add_server) *)
Revive(i) == /\ i \in dead
             /\ hasher' = AppendNew(hasher, <<i>>) /\ dead' = dead \ {i} /\ clients' = clients \cup {i}
             /\ hist' = Append(hist, <<"revive", i>>)
             /\ UNCHANGED <<conns, mon, bad>>

Next == /\ steps < MaxSteps /\ steps' = steps + 1
        /\ \/ \E l \in Lists : Reconfigure(l)
           \/ (steps > 0 /\ ErrorReply)
           \/ \E i \in 1..Universe : Traffic(i) \/ Evict(i) \/ Revive(i)
        /\ IF Export /\ steps' = MaxSteps THEN PrintT(ToJson([tag |-> "EXP", hist |-> hist'])) ELSE TRUE
Spec == Init /\ [][Next]_vars
MonitorOK == bad = {}
(* The bookkeeping invariant of HashClient that reconfiguration relies on: whatever is in the rotation has a client, *)
(* nothing is listed twice, dead servers are out of the rotation but keep their client.  TLC checks it is INDUCTIVE   *)
(* (SpecAny starts in every state that satisfies it and takes MaxSteps steps), and that from every such state a      *)
(* reconfiguration establishes the contract: C19 for histories of any length, not only MaxSteps.                     *)
NoDupSeq(q) == \A i, j \in DOMAIN q : i # j => q[i] # q[j]
SeqSetOf(q) == { q[i] : i \in DOMAIN q }
SysInv == /\ SeqSetOf(hasher) \subseteq clients /\ NoDupSeq(hasher)
          /\ dead \cap SeqSetOf(hasher) = {} /\ dead \subseteq clients /\ conns \subseteq clients
AllSeqs == UNION { { q \in [1..k -> 1..Universe] : NoDupSeq(q) } : k \in 0..Universe }
InitAny == /\ clients \in SUBSET (1..Universe) /\ hasher \in AllSeqs /\ dead \in SUBSET (1..Universe)
           /\ conns \in SUBSET (1..Universe)
           /\ SysInv
           /\ mon = DMonInit([vpc |-> Vpc]) /\ bad = {} /\ hist = <<>> /\ steps = 0
SpecAny == InitAny /\ [][Next]_vars
(* with nothing left in the rotation a key-addressed call raises ("all servers seem to be down"): the contract allows *)
(* that only when every current node was made to fail since the last reconfiguration                                *)
EmptyRotationOnlyByFaults == (mon.valid /\ hasher = <<>>) => mon.cur \subseteq mon.faulted
(* a revived node that is no longer advertised must not come back into rotation *)
=============================================================================
