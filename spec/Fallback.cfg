SPECIFICATION Spec
CONSTANTS
  MaxCaches = 4
  Export = TRUE
  MaxOps = 2
INVARIANT MonitorOK
INVARIANT Complete
CHECK_DEADLOCK FALSE
