SPECIFICATION Spec
CONSTANTS
  MaxCaches = 4
  Export = TRUE
INVARIANT MonitorOK
INVARIANT Complete
CHECK_DEADLOCK FALSE
