---------------------------- MODULE FallbackRule ----------------------------
(***************************************************************************)
(* C18 contract: FallbackClient reads fall through in order and stop at    *)
(* the first answer; writes touch only the primary with the caller's       *)
(* arguments.  Monitor over observable events (scripted cache call logs):  *)
(*   begin(op, kind)   kind in {"read1","readN","write"}                   *)
(*   consult(i, m, a, hit)  cache i received method m with arguments a;    *)
(*                          hit = it answered (non-None / non-empty)       *)
(*   ret(src)          value returned is the answer of cache src, 0 = miss *)
(***************************************************************************)
EXTENDS Naturals, Sequences, FiniteSets

FMonInit(h) == [n |-> h.n, phase |-> "idle", op |-> "none", kind |-> "none",
                next |-> 1, answered |-> 0]

FMonClauses(m, ev) ==
  CASE ev.e = "begin" ->
         << <<"one-call-at-a-time", m.phase = "idle">> >>
    [] ev.e = "consult" ->
         << <<"consult-inside-call", m.phase = "busy">>,
            <<"same-method", ev.m = m.op>>,
            <<"callers-arguments", ev.a = "same-args">>,
            <<"writes-touch-only-primary", m.kind = "write" => (ev.i = 1 /\ m.next = 1)>>,
            <<"reads-in-configured-order", m.kind # "write" => ev.i = m.next>>,
            <<"no-cache-consulted-after-the-answer", m.answered = 0>> >>
    [] ev.e = "ret" ->
         << <<"ret-inside-call", m.phase = "busy">>,
            <<"write-applied-to-primary", m.kind = "write" => m.next = 2>>,
            <<"read-returns-first-answer", m.kind # "write" => ev.src = m.answered>>,
            <<"read-miss-only-after-all-caches", (m.kind # "write" /\ m.answered = 0) => m.next = m.n + 1>>,
            (* a read no cache answered returns nothing -- in particular nothing an earlier caller put into an earlier result *)
            <<"read-miss-returns-nothing", (m.kind # "write" /\ m.answered = 0 /\ ev.src = 0) => ev.empty>> >>
    [] OTHER -> << <<"known-event", FALSE>> >>

FMonEffect(m, ev) ==
  CASE ev.e = "begin"   -> [m EXCEPT !.phase = "busy", !.op = ev.op, !.kind = ev.kind,
                                     !.next = 1, !.answered = 0]
    [] ev.e = "consult" -> [m EXCEPT !.next = ev.i + 1,
                                     !.answered = IF m.kind # "write" /\ ev.hit THEN ev.i ELSE m.answered]
    [] ev.e = "ret"     -> [m EXCEPT !.phase = "idle"]
    [] OTHER -> m

FMonFinal(m) == << <<"trace-complete", m.phase = "idle">> >>
=============================================================================
