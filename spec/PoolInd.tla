------------------------------- MODULE PoolInd -------------------------------
(***************************************************************************)
(* C08, unbounded in time: the statement-level model of ObjectPool (the     *)
(* same steps as spec/PoolThreads.tla: get G1..G5, release R1..R4, destroy  *)
(* D1..D4, clear C1..C6, the lock taken and dropped where the code does)    *)
(* with threads that go on choosing operations FOREVER, and an inductive    *)
(* invariant IndInv checked by Apalache:                                    *)
(*     IndInit => IndInv            (length 0)                              *)
(*     IndInv /\ Next => IndInv'    (length 1, --init=IndInit)              *)
(* so the safety part of C08 -- no connection in two hands, nothing listed  *)
(* twice, capacity respected, nothing closed twice, nothing closed while    *)
(* pooled or handed out again after being closed -- holds in every state of *)
(* every execution of NT threads, however long.  TLC (PoolThreads.tla)      *)
(* explores bounded programs exhaustively and feeds the PoolRule monitor;   *)
(* this module removes the bound on the length of the programs.             *)
(* The two lists are sets here (their order plays no part in these facts).  *)
(***************************************************************************)
EXTENDS Integers, FiniteSets, Apalache

NT == 3
MaxSize == 2
Threads == 1..NT

VARIABLES
  \* @type: Set(Int);
  used,
  \* @type: Set(Int);
  free,
  \* @type: Int;
  lock,
  \* @type: Int -> Str;
  pc,
  \* @type: Int -> Int;
  obj,
  \* @type: Int -> Set(Int);
  tmp,
  \* @type: Int -> Bool;
  dropped,
  \* @type: Int -> Bool;
  quitting,
  \* @type: Set(Int);
  closed,
  \* @type: Int;
  nextid,
  \* @type: Bool;
  twice

PCs == {"idle", "has", "G1", "G2", "G4", "G5", "Graise", "R1", "R2", "R3", "R4", "D1", "D2", "D3", "D4",
        "C1", "C2", "C3", "C4", "C5", "C6"}
Critical == {"G2", "G4", "G5", "Graise", "R2", "R3", "R4", "D2", "D3", "C2", "C3", "C4", "C5"}
(* the thread has a connection in its hands *)
Holding(t) == pc[t] \in {"G4", "G5", "has", "R1", "R2", "R3", "D1", "D2", "D3", "D4"}

Init == /\ used = {} /\ free = {} /\ lock = 0 /\ closed = {} /\ nextid = 1 /\ twice = FALSE
        /\ pc = [t \in Threads |-> "idle"] /\ obj = [t \in Threads |-> 0] /\ tmp = [t \in Threads |-> {}]
        /\ dropped = [t \in Threads |-> FALSE] /\ quitting = [t \in Threads |-> FALSE]

Goto(t, l) == pc' = [pc EXCEPT ![t] = l]

(* a thread picks its next operation: with nothing in hand a checkout or a clear; with a connection in hand *)
(* release, destroy, or destroy-then-release (what PooledClient.quit does)                                 *)
Choose(t) ==
  \/ /\ pc[t] = "idle" /\ \E l \in {"G1", "C1"} : Goto(t, l)
     /\ UNCHANGED <<used, free, lock, obj, tmp, dropped, quitting, closed, nextid, twice>>
  \/ /\ pc[t] = "has" /\ \E l \in {"R1", "D1"} : Goto(t, l)
     /\ \E q \in BOOLEAN : quitting' = [quitting EXCEPT ![t] = q /\ pc'[t] = "D1"]
     /\ UNCHANGED <<used, free, lock, obj, tmp, dropped, closed, nextid, twice>>

Acquire(t, from, to) == /\ pc[t] = from /\ lock = 0 /\ lock' = t /\ Goto(t, to)
                        /\ UNCHANGED <<used, free, obj, tmp, dropped, quitting, closed, nextid, twice>>

(***** get *****)
G2(t) == /\ pc[t] = "G2"
         /\ \/ /\ free # {} /\ \E o \in free : obj' = [obj EXCEPT ![t] = o] /\ free' = free \ {o}
               /\ Goto(t, "G4") /\ UNCHANGED nextid
            \/ /\ free = {} /\ Cardinality(used) >= MaxSize /\ Goto(t, "Graise") /\ UNCHANGED <<obj, free, nextid>>
            \/ /\ free = {} /\ Cardinality(used) < MaxSize /\ obj' = [obj EXCEPT ![t] = nextid] /\ nextid' = nextid + 1
               /\ Goto(t, "G4") /\ UNCHANGED free
         /\ UNCHANGED <<used, lock, tmp, dropped, quitting, closed, twice>>
G4(t) == /\ pc[t] = "G4" /\ used' = used \cup {obj[t]} /\ Goto(t, "G5")
         /\ UNCHANGED <<free, lock, obj, tmp, dropped, quitting, closed, nextid, twice>>
G5(t) == /\ pc[t] = "G5" /\ lock' = 0 /\ Goto(t, "has")
         /\ UNCHANGED <<used, free, obj, tmp, dropped, quitting, closed, nextid, twice>>
Graise(t) == /\ pc[t] = "Graise" /\ lock' = 0 /\ Goto(t, "idle")
             /\ UNCHANGED <<used, free, obj, tmp, dropped, quitting, closed, nextid, twice>>

(***** release *****)
R2(t) == /\ pc[t] = "R2"
         /\ IF obj[t] \in used THEN used' = used \ {obj[t]} /\ Goto(t, "R3") ELSE Goto(t, "R4") /\ UNCHANGED used
         /\ UNCHANGED <<free, lock, obj, tmp, dropped, quitting, closed, nextid, twice>>
R3(t) == /\ pc[t] = "R3" /\ free' = free \cup {obj[t]} /\ Goto(t, "R4")
         /\ UNCHANGED <<used, lock, obj, tmp, dropped, quitting, closed, nextid, twice>>
R4(t) == /\ pc[t] = "R4" /\ lock' = 0 /\ Goto(t, "idle") /\ obj' = [obj EXCEPT ![t] = 0]
         /\ UNCHANGED <<used, free, tmp, dropped, quitting, closed, nextid, twice>>

(***** destroy *****)
D2(t) == /\ pc[t] = "D2"
         /\ IF obj[t] \in used THEN used' = used \ {obj[t]} /\ dropped' = [dropped EXCEPT ![t] = TRUE]
                               ELSE dropped' = [dropped EXCEPT ![t] = FALSE] /\ UNCHANGED used
         /\ Goto(t, "D3") /\ UNCHANGED <<free, lock, obj, tmp, quitting, closed, nextid, twice>>
D3(t) == /\ pc[t] = "D3" /\ lock' = 0 /\ Goto(t, "D4")
         /\ UNCHANGED <<used, free, obj, tmp, dropped, quitting, closed, nextid, twice>>
(* after_remove runs outside the lock; quit() then releases the destroyed connection once more (a silent no-op) *)
D4(t) == /\ pc[t] = "D4"
         /\ IF dropped[t] THEN closed' = closed \cup {obj[t]} /\ twice' = (twice \/ obj[t] \in closed)
                          ELSE UNCHANGED <<closed, twice>>
         /\ IF quitting[t] THEN Goto(t, "R1") /\ UNCHANGED obj ELSE Goto(t, "idle") /\ obj' = [obj EXCEPT ![t] = 0]
         /\ quitting' = [quitting EXCEPT ![t] = FALSE]
         /\ UNCHANGED <<used, free, lock, tmp, dropped, nextid>>

(***** clear *****)
C2(t) == /\ pc[t] = "C2" /\ tmp' = [tmp EXCEPT ![t] = used \cup free] /\ Goto(t, "C3")
         /\ UNCHANGED <<used, free, lock, obj, dropped, quitting, closed, nextid, twice>>
C3(t) == /\ pc[t] = "C3" /\ free' = {} /\ Goto(t, "C4")
         /\ UNCHANGED <<used, lock, obj, tmp, dropped, quitting, closed, nextid, twice>>
C4(t) == /\ pc[t] = "C4" /\ used' = {} /\ Goto(t, "C5")
         /\ UNCHANGED <<free, lock, obj, tmp, dropped, quitting, closed, nextid, twice>>
C5(t) == /\ pc[t] = "C5" /\ lock' = 0 /\ Goto(t, "C6")
         /\ UNCHANGED <<used, free, obj, tmp, dropped, quitting, closed, nextid, twice>>
C6(t) == /\ pc[t] = "C6"
         /\ \/ /\ tmp[t] # {} /\ \E o \in tmp[t] : /\ closed' = closed \cup {o} /\ twice' = (twice \/ o \in closed)
                                                    /\ tmp' = [tmp EXCEPT ![t] = @ \ {o}]
               /\ UNCHANGED pc
            \/ /\ tmp[t] = {} /\ Goto(t, "idle") /\ UNCHANGED <<tmp, closed, twice>>
         /\ UNCHANGED <<used, free, lock, obj, dropped, quitting, nextid>>

Step(t) == \/ Choose(t)
           \/ Acquire(t, "G1", "G2") \/ G2(t) \/ G4(t) \/ G5(t) \/ Graise(t)
           \/ Acquire(t, "R1", "R2") \/ R2(t) \/ R3(t) \/ R4(t)
           \/ Acquire(t, "D1", "D2") \/ D2(t) \/ D3(t) \/ D4(t)
           \/ Acquire(t, "C1", "C2") \/ C2(t) \/ C3(t) \/ C4(t) \/ C5(t) \/ C6(t)
Next == \E t \in Threads : Step(t)

(************************* what C08 asks (safety) **************************)
(* a connection that is in the pool's books as checked out or idle is in at most one thread's hands, and an idle *)
(* one in nobody's; nothing is listed twice; the pool never holds more than max_pool_size; nothing is closed    *)
(* twice; nothing closed is pooled                                                                              *)
Safety ==
  /\ used \cap free = {}
  /\ Cardinality(used) + Cardinality(free) <= MaxSize
  /\ \A t, u \in Threads : (t # u /\ Holding(t) /\ Holding(u)) => obj[t] # obj[u]
  /\ \A t \in Threads : Holding(t) => obj[t] \notin free
  /\ ~twice
  /\ closed \cap (used \cup free) = {}

(*************************** inductive invariant ***************************)
Ids == used \cup free \cup closed \cup UNION { tmp[t] : t \in Threads } \cup { obj[t] : t \in Threads }
(* the connection thread t is about to close in D4 / has in its clear() snapshot: out of the books, not yet closed *)
Pending(t) == (IF pc[t] \in {"D3", "D4"} /\ dropped[t] THEN {obj[t]} ELSE {})
              \cup (IF pc[t] \in {"C3", "C4", "C5", "C6"} THEN tmp[t] ELSE {})

TypeOK ==
  /\ lock \in 0..NT /\ nextid \in Nat /\ nextid >= 1
  /\ pc \in [Threads -> PCs] /\ obj \in [Threads -> Nat]
  /\ dropped \in [Threads -> BOOLEAN] /\ quitting \in [Threads -> BOOLEAN] /\ twice \in BOOLEAN
  /\ \A o \in Ids : o >= 0 /\ o < nextid
  /\ 0 \notin used \cup free \cup closed /\ \A t \in Threads : 0 \notin tmp[t]

IndInv ==
  /\ TypeOK
  /\ Safety
  (* the lock: exactly the thread inside a critical section owns it *)
  /\ \A t \in Threads : (pc[t] \in Critical) <=> (lock = t)
  (* a thread with a connection in hand (or giving one back) really has one; an idle thread has none *)
  /\ \A t \in Threads : pc[t] \in {"G4", "G5", "has", "R1", "R2", "R3", "R4", "D1", "D2", "D3", "D4"} => obj[t] # 0
  /\ \A t \in Threads : quitting[t] => pc[t] \in {"D1", "D2", "D3", "D4"}
  /\ \A t \in Threads : pc[t] \notin {"C2", "C3", "C4", "C5", "C6"} => tmp[t] = {}
  (* G4: the connection just taken is in neither list, in nobody else's hands, and open *)
  /\ \A t \in Threads : pc[t] = "G4" => obj[t] \notin used \cup free \cup closed
  /\ \A t \in Threads : pc[t] \in {"G5"} => obj[t] \in used
  (* capacity counts the connection that is between the two lists (only the lock holder can be there) *)
  /\ Cardinality(used) + Cardinality(free) + (IF \E t \in Threads : pc[t] \in {"G4", "R3"} THEN 1 ELSE 0) <= MaxSize
  (* whatever is listed, or in somebody's hands between checkout and give-back, is open -- unless a clear() took it away *)
  /\ \A t \in Threads : (Holding(t) /\ obj[t] \in used) => obj[t] \notin closed
  (* R3: taken out of the checked-out list, about to be put on the idle list: open and in no other hands *)
  /\ \A t \in Threads : pc[t] = "R3" => obj[t] \notin used \cup free \cup closed
  (* connections about to be closed are out of the books, not closed yet, and claimed by one thread only *)
  /\ \A t \in Threads : Pending(t) \cap closed = {}
  /\ \A t \in Threads : pc[t] \notin {"C3"} => Pending(t) \cap free = {}
  /\ \A t \in Threads : pc[t] \notin {"C3", "C4"} => Pending(t) \cap used = {}
  /\ \A t \in Threads : pc[t] = "C3" => tmp[t] = used \cup free
  /\ \A t \in Threads : pc[t] = "C4" => (free = {} /\ used \subseteq tmp[t])
  /\ \A t, u \in Threads : t # u => Pending(t) \cap Pending(u) = {}
  (* nobody who is not the pending closer can hand a pending connection out again: it is in no list, and a thread that *)
  /\ \A t, u \in Threads : (t # u /\ pc[u] \in {"G4", "G5", "R3"}) => obj[u] \notin Pending(t)

(* initial condition for the inductive step: any state satisfying the invariant (bounded id space for the solver) *)
IndInit ==
  /\ nextid \in 1..8
  /\ used \in SUBSET (1..7) /\ free \in SUBSET (1..7) /\ closed \in SUBSET (1..7)
  /\ lock \in 0..NT
  /\ pc \in [Threads -> PCs] /\ obj \in [Threads -> 0..7]
  /\ tmp \in [Threads -> SUBSET (1..7)]
  /\ dropped \in [Threads -> BOOLEAN] /\ quitting \in [Threads -> BOOLEAN] /\ twice \in BOOLEAN
  /\ IndInv
=============================================================================
