SPECIFICATION TraceSpec
CONSTANTS
  MonInit <- DMonInit
  MonClauses <- DMonClauses
  MonEffect <- DMonEffect
  MonFinal <- DMonFinal
CHECK_DEADLOCK FALSE
