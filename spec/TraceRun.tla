------------------------------ MODULE TraceRun ------------------------------
(***************************************************************************)
(* Generic batch trace validation.  IOEnv.TRACE_FILE is an NDJSON file, one *)
(* recorded execution per line: {"h": header, "ev": [event, ...]}.           *)
(* A contract is a deterministic monitor:                                   *)
(*    MonInit(h)           initial monitor state                            *)
(*    MonClauses(m, ev)    sequence of <<clause name, BOOLEAN>>; the event   *)
(*                         is allowed iff all are TRUE                       *)
(*    MonEffect(m, ev)     next monitor state                               *)
(*    MonFinal(m)          clauses required when the trace ends             *)
(* Every trace is one linear chain of states; verdicts are total and name   *)
(* the failing clauses: <<"REJ", tid, l, clauses>> or <<"ACC", tid>> is      *)
(* printed for every trace (run with -workers 1).                           *)
(***************************************************************************)
EXTENDS Naturals, Sequences, FiniteSets, TLC, Json, IOUtils

CONSTANTS MonInit(_), MonClauses(_, _), MonEffect(_, _), MonFinal(_)

Traces == ndJsonDeserialize(IOEnv.TRACE_FILE)

VARIABLES tid, l, mon, verdict
trvars == <<tid, l, mon, verdict>>

FailedOf(cl) == { cl[i][1] : i \in { j \in DOMAIN cl : ~cl[j][2] } }

TraceInit == /\ tid \in 1..Len(Traces)
             /\ l = 1
             /\ mon = MonInit(Traces[tid].h)
             /\ verdict = "running"

TraceStep == /\ verdict = "running"
             /\ l <= Len(Traces[tid].ev)
             /\ LET ev == Traces[tid].ev[l]
                    f  == FailedOf(MonClauses(mon, ev))
                IN IF f = {}
                     THEN /\ mon' = MonEffect(mon, ev)
                          /\ l' = l + 1
                          /\ verdict' = verdict
                     ELSE /\ PrintT(<<"REJ", tid, l, f>>)
                          /\ verdict' = "rejected"
                          /\ UNCHANGED <<mon, l>>
             /\ tid' = tid

TraceEnd == /\ verdict = "running"
            /\ l = Len(Traces[tid].ev) + 1
            /\ LET f == FailedOf(MonFinal(mon))
               IN IF f = {}
                    THEN PrintT(<<"ACC", tid>>) /\ verdict' = "accepted"
                    ELSE PrintT(<<"REJ", tid, l, f>>) /\ verdict' = "rejected"
            /\ UNCHANGED <<tid, l, mon>>

TraceNext == TraceStep \/ TraceEnd
TraceSpec == TraceInit /\ [][TraceNext]_trvars
=============================================================================
