------------------------------ MODULE TraceRun ------------------------------
(***************************************************************************)
(* Generic batch trace validation.  IOEnv.TRACE_FILE is an NDJSON file, one *)
(* recorded execution per line: {"h": header, "ev": [event, ...]}.           *)
(* A contract is a deterministic monitor:                                   *)
(*    MonInit(h)           initial monitor state                            *)
(*    MonClauses(m, ev)    sequence of <<clause name, BOOLEAN>>; the event   *)
(*                         is allowed iff all are TRUE                       *)
(*    MonEffect(m, ev)     next monitor state                               *)
(*    MonFinal(m)          clauses required when the trace ends             *)
(* Every trace is one linear chain of states; verdicts are total and name   *)
(* the failing clauses: <<"REJ", tid, l, clauses>> for every rejected event  *)
(* and <<"ACC", tid>> for every trace without one (run with -workers 1).     *)
(***************************************************************************)
EXTENDS Naturals, Sequences, FiniteSets, TLC, Json, IOUtils

CONSTANTS MonInit(_), MonClauses(_, _), MonEffect(_, _), MonFinal(_)

Traces == ndJsonDeserialize(IOEnv.TRACE_FILE)

VARIABLES tid, l, mon, nrej
trvars == <<tid, l, mon, nrej>>

FailedOf(cl) == { cl[i][1] : i \in { j \in DOMAIN cl : ~cl[j][2] } }

TraceInit == /\ tid \in 1..Len(Traces)
             /\ l = 1
             /\ mon = MonInit(Traces[tid].h)
             /\ nrej = 0

(* A rejected event is reported and the monitor moves on (MonEffect is total), so *)
(* the rest of the execution is still checked; at most MaxRej reports per trace.  *)
MaxRej == IF "maxrej" \in DOMAIN Traces[tid].h THEN Traces[tid].h.maxrej ELSE 3
TraceStep == /\ l <= Len(Traces[tid].ev)
             /\ nrej < MaxRej
             /\ LET ev == Traces[tid].ev[l]
                    f  == FailedOf(MonClauses(mon, ev))
                IN /\ IF f = {} THEN nrej' = nrej
                               ELSE PrintT(<<"REJ", tid, l, f>>) /\ nrej' = nrej + 1
                   /\ mon' = MonEffect(mon, ev)
                   /\ l' = l + 1
             /\ tid' = tid

TraceEnd == /\ l = Len(Traces[tid].ev) + 1 \/ (nrej = MaxRej /\ l <= Len(Traces[tid].ev))
            /\ LET f == IF nrej = MaxRej THEN {} ELSE FailedOf(MonFinal(mon))
               IN IF f = {} /\ nrej = 0
                    THEN PrintT(<<"ACC", tid>>)
                    ELSE IF f # {} THEN PrintT(<<"REJ", tid, l, f>>) ELSE TRUE
            /\ l' = Len(Traces[tid].ev) + 2
            /\ UNCHANGED <<tid, mon, nrej>>

TraceNext == TraceStep \/ TraceEnd
TraceSpec == TraceInit /\ [][TraceNext]_trvars
=============================================================================
