#!/bin/sh
# MANIFEST.setup_cmd: offline sanity of the tool chain; SANY-parse every specification.
set -e
cd "$(dirname "$0")"
command -v java >/dev/null
test -f /opt/veriftools/tla/tla2tools.jar
test -x /venv/bin/python
mkdir -p evidence replays
D=$(mktemp -d)
trap 'rm -rf "$D"' EXIT
cp spec/*.tla "$D"/
rc=0
for f in "$D"/*.tla; do
  # modules written for Apalache (EXTENDS Apalache) are parsed by apalache-mc itself when their check runs
  if grep -q "^EXTENDS.*Apalache" "$f"; then continue; fi
  if ! (cd "$D" && java -cp /opt/veriftools/tla/tla2tools.jar:/opt/veriftools/tla/CommunityModules-deps.jar tla2sany.SANY "$(basename "$f")" >"$D/sany.out" 2>&1); then
    echo "SANY failed on $(basename "$f")"; tail -20 "$D/sany.out"; rc=1
  elif grep -q "^\*\*\* Errors\|Fatal errors\|Could not parse" "$D/sany.out"; then
    echo "SANY errors in $(basename "$f")"; tail -20 "$D/sany.out"; rc=1
  fi
done
/venv/bin/python -B -c "import sys; sys.path.insert(0,'.'); from lib import common, tlc; common.import_repo(); print('setup ok')"
exit $rc
