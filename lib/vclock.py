"""Virtual clock.  install() replaces time.time / time.monotonic / time.sleep process-wide
*before* pymemcache is imported, so both `import time; time.time()` and
`from time import sleep` styles end up here.  Drivers read/advance `now` and may install a
sleep recorder."""
import time as _time

_real_time = _time.time
_real_sleep = _time.sleep
_real_monotonic = _time.monotonic

now = 1_000_000.0
sleep_log = None  # list to append (seconds) to, or None
installed = False


def _vtime():
    return now


def _vsleep(seconds):
    global now
    if sleep_log is not None:
        sleep_log.append(seconds)
    try:
        now += float(seconds)
    except (TypeError, ValueError):
        pass


def install():
    global installed
    if not installed:
        _time.time = _vtime
        _time.monotonic = _vtime
        _time.sleep = _vsleep
        installed = True


def advance(d):
    global now
    now += d


def set_now(t):
    global now
    now = float(t)


def real_time():
    return _real_time()
