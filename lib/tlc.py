"""TLC runner: model checking, behaviour export, batch trace validation."""
import json
import os
import re
import shutil
import subprocess
import time

_now = time.time  # real clock, captured before lib.vclock may virtualise it

from . import common

JAR = "/opt/veriftools/tla/tla2tools.jar"
DEPS = "/opt/veriftools/tla/CommunityModules-deps.jar"

_STATES = re.compile(r"^(\d+) states generated, (\d+) distinct states found, (\d+) states left on queue", re.M)
_DEPTH = re.compile(r"The depth of the complete state graph search is (\d+)")
_SIMSTATES = re.compile(r"The number of states generated: (\d+)")
_INV = re.compile(r"Error: Invariant (\S+) is violated")
_PROP = re.compile(r"Error: Action property (\S+) is violated|Error: Temporal properties were violated")
_EXP = re.compile(r'^<<"(\w+)", "(.*)">>$')


class TLCResult:
    def __init__(self):
        self.rc = None
        self.out = ""
        self.generated = 0
        self.distinct = 0
        self.depth = 0
        self.invariants_violated = []
        self.deadlock = False
        self.error = None
        self.wall = 0.0
        self.cmd = ""
        self.coverage = {}

    @property
    def ok(self):
        return self.rc == 0 and not self.invariants_violated and not self.deadlock and self.error is None

    def exported(self, tag="EXP"):
        """JSON records printed by the spec as PrintT(<<tag, ToJson(rec)>>)."""
        res = []
        for line in self.printed():
            if not line.startswith('<<"' + tag + '", "'):
                continue
            m = _EXP.match(line)
            if not m:
                raise common.MachineryError("unparseable export line: " + line[:200])
            res.append(json.loads(json.loads('"' + m.group(2) + '"')))
        return res

    def json_lines(self, tag="EXP"):
        """Records printed as PrintT(ToJson([tag |-> <tag>, ...])): one quoted JSON string per line
        (atomic even with many workers)."""
        res = []
        needle = '\\"tag\\":\\"' + tag + '\\"'
        for ln in self.out.splitlines():
            if ln.startswith('"{') and needle in ln:
                res.append(ln)
        # TLC's workers print in a nondeterministic order: sort, so that seeded sampling downstream is reproducible
        res.sort()
        return [json.loads(json.loads(ln)) for ln in res]

    def printed(self):
        """All values printed with PrintT, one normalised string each.  TLC pretty-prints long
        values over several lines; lines are re-assembled by bracket matching."""
        if getattr(self, "_printed", None) is None:
            vals, cur, depth = [], None, 0
            for ln in self.out.splitlines():
                if cur is None:
                    if not ln.startswith("<<"):
                        continue
                    cur, depth = [], 0
                cur.append(ln.strip())
                depth += ln.count("<<") - ln.count(">>")
                if depth <= 0:
                    v = " ".join(cur)
                    v = re.sub(r"<<\s+", "<<", v)
                    v = re.sub(r"\s+>>", ">>", v)
                    v = re.sub(r"\{\s+", "{", v)
                    v = re.sub(r"\s+\}", "}", v)
                    vals.append(v)
                    cur = None
            self._printed = vals
        return self._printed

    def tuples(self, tag):
        """Values printed as PrintT(<<tag, ...>>) -- returned as strings after the tag."""
        pre = '<<"' + tag + '", '
        return [v[len(pre):-2] for v in self.printed() if v.startswith(pre) and v.endswith(">>")]


def stage_specs(dest=None):
    """Copy the spec tree into scratch so TLC never writes under /verif."""
    dest = dest or common.subscratch("spec")
    for f in os.listdir(common.SPEC_DIR):
        if f.endswith((".tla", ".cfg")):
            shutil.copy(os.path.join(common.SPEC_DIR, f), dest)
    return dest


def run(module, cfg=None, cfg_text=None, workers=16, timeout=900, env=None, simulate=None,
        depth=None, coverage=False, specdir=None, extra=(), seed=None, heap=None, dfs=False):
    """Run TLC on spec/<module>.tla with spec/<cfg>.cfg (or an inline cfg_text)."""
    d = specdir or stage_specs()
    if cfg_text is not None:
        cfg = cfg or (module + "_gen")
        with open(os.path.join(d, cfg + ".cfg"), "w") as f:
            f.write(cfg_text)
    cfg = cfg or module
    meta = common.subscratch("meta")
    # (SANY unpacks the standard modules into java.io.tmpdir on every start: keep that inside the run's scratch directory)
    java = ["java", "-XX:+UseParallelGC", "-Xss64m", "-Djava.io.tmpdir=" + meta]
    if heap:
        java.append("-Xmx" + heap)
    if dfs:
        java.append("-Dtlc2.tool.queue.IStateQueue=StateDeque")
    cmd = java + ["-cp", JAR + ":" + DEPS, "tlc2.TLC", "-workers", str(workers), "-metadir", meta,
                  "-noGenerateSpecTE", "-config", cfg + ".cfg"]
    if simulate:
        cmd += ["-simulate", simulate]
    if depth:
        cmd += ["-depth", str(depth)]
    if seed is not None:
        cmd += ["-seed", str(seed)]
    if coverage:
        cmd += ["-coverage", "1"]
    cmd += list(extra) + [module + ".tla"]
    e = dict(os.environ)
    e.pop("JAVA_TOOL_OPTIONS", None)
    if env:
        e.update(env)
    r = TLCResult()
    r.cmd = " ".join(cmd[cmd.index("tlc2.TLC"):])
    t0 = _now()
    try:
        p = subprocess.run(cmd, cwd=d, env=e, stdout=subprocess.PIPE, stderr=subprocess.STDOUT,
                           timeout=timeout, text=True, errors="replace")
        r.rc, r.out = p.returncode, p.stdout
    except subprocess.TimeoutExpired as ex:
        r.rc, r.out = -9, (ex.stdout or "") if isinstance(ex.stdout, str) else (ex.stdout or b"").decode("utf8", "replace")
        r.error = f"TLC timed out after {timeout}s"
    r.wall = _now() - t0
    if os.environ.get("VERIF_DEBUG_TLC"):
        with open(os.environ["VERIF_DEBUG_TLC"] + (".fail" if r.rc not in (0,) else ""), "w") as f:
            f.write(r.out)
    shutil.rmtree(meta, ignore_errors=True)
    m = None
    for m in _STATES.finditer(r.out):
        pass
    if m:
        r.generated, r.distinct = int(m.group(1)), int(m.group(2))
    else:
        m = _SIMSTATES.search(r.out)
        if m:
            r.generated = r.distinct = int(m.group(1))
    m = _DEPTH.search(r.out)
    if m:
        r.depth = int(m.group(1))
    r.invariants_violated = _INV.findall(r.out)
    if _PROP.search(r.out):
        r.invariants_violated.append("(temporal/action property)")
    r.deadlock = "Error: Deadlock reached" in r.out
    if r.error is None and r.rc not in (0, 11, 12, 13):
        # parse / semantic / evaluation error, or crash
        tail = "\n".join(l for l in r.out.splitlines() if not l.startswith("<<"))[-3000:]
        r.error = f"TLC failed rc={r.rc}: {tail}"
    if r.error is None and r.rc != 0 and not r.invariants_violated and not r.deadlock:
        tail = "\n".join(l for l in r.out.splitlines() if not l.startswith("<<"))[-3000:]
        r.error = f"TLC rc={r.rc} without a recognised verdict: {tail}"
    return r


def require_ok(r, what):
    """Design check must pass; anything else is reported by the caller."""
    if r.error:
        raise common.MachineryError(f"{what}: {r.error}")
    return r.ok


def first_error_trace(r, limit=6000):
    i = r.out.find("Error:")
    return r.out[i:i + limit] if i >= 0 else ""


def validate_traces(module, traces, cfg=None, timeout=900, chunk=4000, specdir=None):
    """Batch trace validation (TraceRun.tla idiom).

    traces: list of {"h": header, "ev": [events]}.  Returns (accepted:set of indices,
    rejects: {index: [(event position (1-based), clause-set text), ...]}, states, transitions).
    Every trace gets a verdict; a trace with no verdict is a machinery error."""
    accepted, rejects = set(), {}
    states = trans = 0
    d = specdir or stage_specs()
    for base in range(0, len(traces), chunk):
        part = traces[base:base + chunk]
        tf = os.path.join(common.subscratch("tr"), "traces.ndjson")
        with open(tf, "w") as f:
            for t in part:
                f.write(json.dumps(t, separators=(",", ":")))
                f.write("\n")
        r = run(module, cfg=cfg or module, workers=1, timeout=timeout, env={"TRACE_FILE": tf}, specdir=d)
        if r.error or r.rc != 0:
            raise common.MachineryError(f"trace validation with {module} failed: {r.error or r.out[-2000:]}")
        states += r.distinct
        trans += r.generated
        for s in r.tuples("ACC"):
            accepted.add(base + int(s) - 1)
        for s in r.tuples("REJ"):
            m = re.match(r"(\d+), (\d+), (.*)$", s)
            rejects.setdefault(base + int(m.group(1)) - 1, []).append((int(m.group(2)), m.group(3)))
        os.remove(tf)
        for i in range(base, base + len(part)):
            if i not in accepted and i not in rejects:
                raise common.MachineryError(f"{module}: trace {i} got no verdict")
            if i in accepted and i in rejects:
                raise common.MachineryError(f"{module}: trace {i} both accepted and rejected")
    return accepted, rejects, states, trans
