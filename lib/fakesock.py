"""Fake socket module (the `socket_module=` seam) with scripted reference servers.

Every socket-module call is logged as an event *after* its effect; faults are injected from a
per-call plan {(optype, k): kind} = "the k-th <optype> of this public call fails with <kind>";
reply bytes queued by the servers are tagged with the public call (and command index) they
answer, so the monitor can decide whose reply a recv() delivered.  A recv() on a connection
with nothing queued and no fault planned would block forever on a real socket: the fake raises
WouldBlockForever (a BaseException) and logs it.
"""
import errno
import socket as _socket
import ssl as _ssl

from . import refserver, wire


class WouldBlockForever(BaseException):
    pass


class GeventLikeTimeout(BaseException):
    """stands for gevent.Timeout (a BaseException subclass raised inside a socket call)"""


INTERRUPTS = {"kbd": KeyboardInterrupt, "sysexit": SystemExit, "gevent": GeventLikeTimeout}


def make_exc(kind):
    if kind in INTERRUPTS:
        return INTERRUPTS[kind]("injected " + kind)
    if kind == "timeout":
        return _socket.timeout("timed out")
    if kind == "reset":
        return ConnectionResetError(errno.ECONNRESET, "Connection reset by peer")
    if kind in ("refused", "nowhere"):
        return ConnectionRefusedError(errno.ECONNREFUSED, "Connection refused")
    if kind == "afmismatch":
        return OSError(errno.EAFNOSUPPORT, "Address family not supported by protocol")
    if kind == "pipe":
        return BrokenPipeError(errno.EPIPE, "Broken pipe")
    if kind == "gai":
        return _socket.gaierror(-2, "Name or service not known")
    if kind == "emfile":
        return OSError(errno.EMFILE, "Too many open files")
    if kind == "oserror":
        return OSError(errno.EINVAL, "Invalid argument")
    if kind == "runtime":
        return RuntimeError("injected failure that is no OSError")
    if kind == "ssl":
        return _ssl.SSLError("injected TLS failure")
    if kind == "eintr":
        return OSError(errno.EINTR, "Interrupted system call")
    raise ValueError(kind)


class ServerConn:
    """Server side of one connection."""

    def __init__(self, net, server):
        self.net = net
        self.server = server
        self.parser = wire.Parser()
        self.out = []          # [bytearray, owner_call, cmd_index]
        self.peer_closed = False   # server closed its end: reads hit end-of-stream once drained
        self.silent = False        # server stopped answering: reads time out once drained
        self.cmds_seen = 0

    def pending(self):
        return sum(len(c[0]) for c in self.out)

    def receive(self, data):
        net = self.net
        cmds = self.parser.feed(data)
        for cmd in cmds:
            idx = net.cmd_counter
            net.cmd_counter += 1
            net.sent_cmds.append(cmd)
            rf = net.plan.get(("reply", idx))
            mode = getattr(self.server, "mode", None)
            if rf is None and mode == "hang":
                # the server takes the request and never answers: the client's read times out
                self.silent = True
                net.units.append((net.call_id, idx, 0))
                continue
            if rf is None and mode == "mcerr":
                rep = b"" if cmd.get("noreply") else b"SERVER_ERROR out of memory storing object\r\n"
            elif rf is None:
                rep = self.server.apply(cmd)
            else:
                self.server.log.append(dict(cmd, faulted=rf))
                if cmd.get("noreply"):
                    rep = b""
                elif rf == "error":
                    rep = b"ERROR\r\n"
                elif rf == "client_error":
                    rep = b"CLIENT_ERROR injected bad thing\r\n"
                elif rf == "server_error":
                    rep = b"SERVER_ERROR out of memory storing object\r\n"
                elif rf == "garbage":
                    rep = b"WHAT_IS_THIS 17\r\n"
                elif rf == "badvalue":
                    # a VALUE block whose header does not parse (non-numeric size / flags), followed by more reply text;
                    # only a retrieval command can be answered by several lines (anything else would be unsolicited bytes)
                    if cmd.get("verb") in (b"get", b"gets", b"gat", b"gats"):
                        rep = b"VALUE k1 zero one\r\nx\r\nEND\r\n"
                    else:
                        rep = b"WHAT_IS_THIS 17\r\n"
                elif rf == "surplus":
                    # a VALUE block for the key asked for whose header has one column too many for the command sent
                    # (a cas column on get/gat, a sixth column on gets/gats): not a reply to this request
                    k0 = (cmd.get("keys") or [b"k1"])[0]
                    if cmd.get("verb") in (b"get", b"gat"):
                        rep = b"VALUE " + k0 + b" 0 1 77\r\nx\r\nEND\r\n"
                    elif cmd.get("verb") in (b"gets", b"gats"):
                        rep = b"VALUE " + k0 + b" 0 1 77 88\r\nx\r\nEND\r\n"
                    else:
                        rep = b"WHAT_IS_THIS 17\r\n"
                elif rf == "two_line_error":
                    # what memcached answers to a storage command whose data block is malformed: two error lines
                    rep = b"CLIENT_ERROR bad data chunk\r\nERROR\r\n"
                elif rf == "foreign":
                    # a well-formed VALUE block for a key that was never asked for
                    if cmd.get("verb") in (b"get", b"gat"):
                        rep = b"VALUE never-asked-for 0 1\r\nx\r\nEND\r\n"
                    elif cmd.get("verb") in (b"gets", b"gats"):
                        rep = b"VALUE never-asked-for 0 1 77\r\nx\r\nEND\r\n"
                    else:
                        rep = b"WHAT_IS_THIS 17\r\n"
                elif isinstance(rf, tuple) and rf[0] == "trunc":
                    full = self.server.apply(cmd)
                    cut = max(0, min(len(full) - 1, rf[1] if rf[1] >= 0 else len(full) + rf[1]))
                    rep = full[:cut]
                    self.peer_closed = rf[2] if len(rf) > 2 else True
                    self.silent = not self.peer_closed
                    if rep:
                        self.out.append([bytearray(rep), net.call_id, idx])
                    net.units.append((net.call_id, idx, len(rep)))
                    return          # server stops answering after the truncated reply
                else:
                    raise ValueError(rf)
            if rep:
                self.out.append([bytearray(rep), net.call_id, idx])
                if rf is None and rep.startswith((b"ERROR", b"CLIENT_ERROR", b"SERVER_ERROR")):
                    net.err_replies += 1
            net.units.append((net.call_id, idx, len(rep)))
            # where the reply's lines end (a truncation right after a header line leaves the client inside a data block)
            net.unit_bounds[idx] = [i + 2 for i in range(len(rep) - 1) if rep[i:i + 2] == b"\r\n"][:8]


class FakeSocket:
    def __init__(self, net, family, addr_index):
        self.net = net
        self.sid = len(net.socks) + 1
        net.socks.append(self)
        self.family = family
        self.addr_index = addr_index
        self.state = "created"     # created | connected | closed | detached
        self.tmo = -2          # settimeout() not called yet (-1 stands for None)
        self.opts = []
        self.raw = None            # sid of the raw socket when this is a TLS wrapper
        self.conn = None
        self.server_key = None
        self.faulted = False

    # -- helpers --
    def _fault(self, op):
        return self.net.next_fault(op)

    def _ev(self, e, **kw):
        kw["e"] = e
        kw["s"] = self.sid
        self.net.log.append(kw)

    def _io_defaults(self, op):
        """an I/O attempt that never reached the wire still carries every field the contract reads"""
        if op == "send":
            return dict(c=self.net.call_id, tmo=self.tmo, n=0, ncmd=0, nrep=0, nerr=0)
        if op == "recv":
            return dict(c=self.net.call_id, tmo=self.tmo, n=0, own=[])
        return {}

    def _check_usable(self, op):
        if self.state in ("closed", "detached"):
            self._ev(op, **self._io_defaults(op), fault="use-after-" + self.state)
            raise OSError(errno.EBADF, "Bad file descriptor")

    # -- socket API --
    def setsockopt(self, level, name, value):
        self._check_usable("opt")
        f = self._fault("setsockopt")
        self._ev("opt", name=int(name), fault=f or "none")
        if f:
            raise make_exc(f)
        self.opts.append((level, name, value))

    def settimeout(self, v):
        self._check_usable("tmo")
        f = self._fault("settimeout")
        val = -1 if v is None else v
        self._ev("tmo", v=val, fault=f or "none")
        if f:
            raise make_exc(f)
        self.tmo = val

    def connect(self, addr):
        self._check_usable("connect")
        f = self._fault("connect")
        key = self.net.server_key_for(addr)
        srv = self.net.servers.get(key)
        if f is None and isinstance(addr, tuple) and addr[0] in self.net.stale_ips:
            # the name has been pointed at another address since: nobody listens at the old one.  Not a fault of the
            # environment -- a client that resolves the name again reaches the server
            f = "nowhere"
            srv = None
        if f is None and isinstance(addr, tuple) and self.family in (self.net.AF_INET, self.net.AF_INET6):
            # like the kernel: a socket of one address family cannot be connected to an address of another (the address that
            # was resolved together with another family).  Not a fault of the environment: the client mixed two entries up
            fam_of = {ip: fam for fam, ip in getattr(self.net, "_resolved", [])}
            if fam_of.get(addr[0], self.family) != self.family:
                f = "afmismatch"
                srv = None
        if f is None and (srv is None or srv.down or getattr(srv, "mode", None) == "refuse"):
            f = "refused"
        self.server_key = key
        self._ev("connect", tmo=self.tmo, a=self.net.addr_name(addr), srv=str(key), fault=f or "none")
        if f:
            self.faulted = True
            raise make_exc(f)
        self.state = "connected"
        self.conn = ServerConn(self.net, srv)

    def sendall(self, data):
        self._check_usable("send")
        if self.state != "connected":
            self._ev("send", **self._io_defaults("send"), fault="not-connected")
            raise OSError(errno.ENOTCONN, "not connected")
        f = self._fault("sendall")
        if f is None and getattr(self.conn.server, "mode", None) == "refuse":
            f = "reset"             # the server went away while this connection was open
        n0 = self.net.cmd_counter
        e0 = self.net.err_replies
        if f is None or f in INTERRUPTS:
            # an asynchronous interrupt surfaces when the call returns: the bytes are already out
            self.net.wire_log.append((self.sid, bytes(data)))
            self.conn.receive(bytes(data))
        elif f == "partial" or (isinstance(f, tuple) and f[0] == "half"):
            # part of the request is out when the timeout strikes / the interruption (("half", kind)) arrives
            half = bytes(data)[: max(1, len(data) // 2)]
            self.net.wire_log.append((self.sid, half))
            self.conn.receive(half)
            if isinstance(f, tuple):
                f = f[1]
        new = self.net.sent_cmds[len(self.net.sent_cmds) - (self.net.cmd_counter - n0):] if self.net.cmd_counter > n0 else []
        nrep = sum(1 for c in new if "error" in c or not c.get("noreply"))
        self._ev("send", c=self.net.call_id, tmo=self.tmo, n=len(data), ncmd=self.net.cmd_counter - n0,
                 nrep=nrep, nerr=self.net.err_replies - e0, fault=f or "none")
        if f:
            if f not in INTERRUPTS:
                self.faulted = True
            if f in ("reset", "pipe"):
                self.torn = True        # the connection is gone: a later shutdown() fails with ENOTCONN, close() still works
            raise make_exc("timeout" if f == "partial" else f)

    def send(self, data):
        self.sendall(data)
        return len(data)

    def recv(self, size):
        self._check_usable("recv")
        if self.state != "connected":
            self._ev("recv", **self._io_defaults("recv"), fault="not-connected")
            raise OSError(errno.ENOTCONN, "not connected")
        f = self._fault("recv")
        if f == "eintr":
            self._ev("recv", c=self.net.call_id, tmo=self.tmo, n=0, own=[], fault="eintr")
            raise make_exc("eintr")
        if f == "eof":
            self.faulted = True
            self._ev("recv", c=self.net.call_id, tmo=self.tmo, n=0, own=[], fault="eof")
            return b""
        if f:
            if f not in INTERRUPTS:
                self.faulted = True
            if f in ("reset", "pipe"):
                self.torn = True
            self._ev("recv", c=self.net.call_id, tmo=self.tmo, n=0, own=[], fault=f)
            raise make_exc(f)
        conn = self.conn
        if not conn.out:
            if conn.peer_closed:
                self.faulted = True
                self._ev("recv", c=self.net.call_id, tmo=self.tmo, n=0, own=[], fault="eof")
                return b""
            if conn.silent:
                self.faulted = True
                self._ev("recv", c=self.net.call_id, tmo=self.tmo, n=0, own=[], fault="timeout")
                raise make_exc("timeout")
            self._ev("recv", c=self.net.call_id, tmo=self.tmo, n=0, own=[], fault="wouldblock")
            raise WouldBlockForever(f"recv on socket {self.sid} with nothing to read")
        want = min(size, self.net.next_piece(conn.pending()))
        got = bytearray()
        owners = []
        while want > 0 and conn.out:
            chunk = conn.out[0]
            take = chunk[0][:want]
            got += take
            del chunk[0][:len(take)]
            want -= len(take)
            if chunk[1] not in owners:
                owners.append(chunk[1])
            if not chunk[0]:
                conn.out.pop(0)
        self._ev("recv", c=self.net.call_id, tmo=self.tmo, n=len(got), own=owners, fault="none")
        return bytes(got)

    def close(self):
        f = self._fault("close") if self.state not in ("closed", "detached") else None
        if isinstance(f, tuple) and f[0] == "pre":
            # the interruption arrives inside close() BEFORE the descriptor is closed: the socket stays open
            self._ev("closeintr", fault=f[1])
            raise make_exc(f[1])
        if self.state == "detached":
            self._ev("close", fault="detached")
            return
        already = self.state == "closed"
        self.state = "closed"
        self._ev("close", fault=f or ("again" if already else "none"))
        if f:
            raise make_exc(f)

    def fileno(self):
        return 1000 + self.sid

    def shutdown(self, how):
        # like a real socket: shutting down a connection the peer has already torn down fails with ENOTCONN
        self._check_usable("shutdown")
        if self.state != "connected" or getattr(self, "torn", False) or (self.conn is not None and self.conn.peer_closed):
            raise OSError(errno.ENOTCONN, "Transport endpoint is not connected")


class FakeTLSContext:
    def __init__(self, net):
        self.net = net

    def wrap_socket(self, sock, server_hostname=None, **kw):
        net = self.net
        f = net.next_fault("wrap")
        if f:
            net.log.append({"e": "wrap", "s": sock.sid, "w": 0, "fault": f})
            raise make_exc(f)
        w = FakeSocket(net, sock.family, sock.addr_index)
        w.raw = sock.sid
        w.tmo = sock.tmo
        w.opts = list(sock.opts)
        sock.state = "detached"       # like ssl: the wrapper takes over the descriptor
        net.log.append({"e": "wrap", "s": sock.sid, "w": w.sid, "fault": "none"})
        return w


class FakeNet:
    """Instance used as socket_module."""
    AF_UNIX, AF_INET, AF_INET6, AF_UNSPEC = 1, 2, 10, 0
    SOCK_STREAM, IPPROTO_TCP, TCP_NODELAY = 1, 6, 1
    SOL_SOCKET, SO_KEEPALIVE = 1, 9
    error = OSError
    timeout = _socket.timeout
    gaierror = _socket.gaierror

    def __init__(self):
        self.servers = {}       # server key -> RefServer
        self.addrs = {}         # host -> [(family, ip)]
        self.ip2host = {}
        self.stale_ips = set()
        self.repoints = 0
        self.log = []
        self.socks = []
        self.wire_log = []      # (sid, bytes) of every successful sendall
        self.call_id = 0
        self.plan = {}
        self.counters = {}
        self.cmd_counter = 0
        self.sent_cmds = []
        self.units = []
        self.unit_bounds = {}
        self.segmentation = "all"
        self.seg_state = 0
        self.err_replies = 0

    # -- configuration --
    def add_server(self, key, server=None, addrs=None):
        """key: (host, port) or unix path"""
        srv = server or refserver.RefServer(name=str(key))
        self.servers[key] = srv
        if isinstance(key, tuple):
            host = key[0]
            al = addrs or [(self.AF_INET, "10.%d.0.1" % (len(self.addrs) + 1))]
            self.addrs[host] = al
            for _, ip in al:
                self.ip2host[ip] = host
        return srv

    def repoint(self, host):
        """the server behind `host` moves to a new address; the old ones stop answering"""
        old = self.addrs.get(host, [])
        for _, ip in old:
            self.stale_ips.add(ip)
        self.repoints += 1
        new = [(fam, "10.99.%d.%d" % (self.repoints, i + 1)) for i, (fam, _) in enumerate(old or [(self.AF_INET, "")])]
        self.addrs[host] = new
        for _, ip in new:
            self.ip2host[ip] = host

    def tls_context(self):
        return FakeTLSContext(self)

    # -- per-call control --
    def begin_call(self, call_id, plan=None, segmentation="all"):
        self.call_id = call_id
        self.plan = dict(plan or {})
        self.counters = {}
        self.cmd_counter = 0
        self.sent_cmds = []
        self.units = []
        self.unit_bounds = {}
        self.segmentation = segmentation
        self.seg_state = 0

    def next_fault(self, op):
        k = self.counters.get(op, 0) + 1
        self.counters[op] = k
        return self.plan.get((op, k))

    def next_piece(self, pending):
        seg = self.segmentation
        if seg == "all":
            return pending
        if seg == "bytes":
            return 1
        if seg == "aftercr":
            # every piece ends right after a CR: each CR LF pair straddles two recv() results
            for s in self.socks:
                if s.conn is not None and s.conn.out and s.state == "connected" and s.conn.pending() == pending:
                    data = b"".join(bytes(c[0]) for c in s.conn.out)
                    i = data.find(b"\r")
                    return i + 1 if i >= 0 else pending
            return pending
        if seg == "beforelf":
            # every piece ends right before an LF: the CR of each CR LF ends a piece together with what precedes it
            for s in self.socks:
                if s.conn is not None and s.conn.out and s.state == "connected" and s.conn.pending() == pending:
                    data = b"".join(bytes(c[0]) for c in s.conn.out)
                    i = data.find(b"\n", 1)
                    return i if i > 0 else pending
            return pending
        if seg == "units":
            # one command's reply per recv(): the granularity of the as-coded model
            for s in self.socks:
                if s.conn is not None and s.conn.out and s.state == "connected" and s.conn.pending() == pending:
                    return len(s.conn.out[0][0])
            return pending
        if isinstance(seg, (list, tuple)):
            i = self.seg_state
            self.seg_state += 1
            return seg[i] if i < len(seg) else pending
        if callable(seg):
            return max(1, seg(pending))
        return pending

    def open_sockets(self):
        return [s for s in self.socks if s.state in ("created", "connected")]

    def boundary(self):
        """snapshot logged with ret/raise: open sockets with their unread reply bytes and
        unparsed request bytes"""
        return [[s.sid, s.conn.pending() if s.conn else 0, s.conn.parser.partial if s.conn else 0]
                for s in self.open_sockets()]

    # -- socket module API --
    def server_key_for(self, addr):
        if isinstance(addr, tuple):
            host = self.ip2host.get(addr[0], addr[0])
            port = addr[1]
            if isinstance(port, str) and port.isdigit():
                port = int(port)          # the ElastiCache client passes ports as text
            return (host, port)
        return addr

    def addr_name(self, addr):
        return "%s:%s" % (addr[0], addr[1]) if isinstance(addr, tuple) else str(addr)

    def getaddrinfo(self, host, port, family=0, type=0, proto=0, flags=0):
        f = self.next_fault("getaddrinfo")
        al = self.addrs.get(host)
        if f is None and al is None:
            al = [(self.AF_INET, host)]
        self.log.append({"e": "resolve", "s": 0, "n": 0 if f else len(al), "fault": f or "none"})
        if f:
            raise make_exc(f)
        self._resolved = [(fam, ip) for fam, ip in al]
        return [(fam, self.SOCK_STREAM, self.IPPROTO_TCP, "", (ip, port) if fam == self.AF_INET else (ip, port, 0, 0))
                for fam, ip in al]

    def socket(self, family=2, type=1, proto=0):
        f = self.next_fault("socket")
        k = self.counters["socket"]
        if f:
            self.log.append({"e": "sock", "s": 0, "a": k, "fam": int(family), "fault": f})
            raise make_exc(f)
        s = FakeSocket(self, family, k)
        self.log.append({"e": "sock", "s": s.sid, "a": k, "fam": int(family), "fault": "none"})
        return s
