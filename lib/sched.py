"""Deterministic thread scheduler for real code (C08).

Worker threads run one at a time.  A worker parks (and the controller picks who runs next) at every
yield point: every sys.monitoring LINE (or INSTRUCTION) event inside the registered code objects,
every CoopLock.acquire / release, and wherever the harness calls yield_point() itself.  CoopLock is
handed to the code under test through its lock_generator= seam and never blocks the OS thread: a
worker that finds it held is marked blocked and yields; all live workers blocked = deadlock.

Exploration is stateless DFS over the controller's choices with a preemption bound (a preemption =
switching away from a worker that could have continued)."""
import sys
import threading

TOOL = 3
_mon = sys.monitoring


class Deadlock(Exception):
    pass


class Worker:
    def __init__(self, idx, fn):
        self.idx = idx
        self.fn = fn
        self.go = threading.Semaphore(0)
        self.done = False
        self.blocked_on = None
        self.error = None
        self.thread = None


class CoopLock:
    def __init__(self, ctrl):
        self.ctrl = ctrl
        self.owner = None

    def acquire(self, blocking=True, timeout=-1):
        w = self.ctrl.current_worker()
        if w is None:
            if self.owner is not None:
                raise RuntimeError("CoopLock held while used outside the scheduler")
            self.owner = "main"
            return True
        self.ctrl.yield_point("lock-acquire")
        while self.owner is not None:
            w.blocked_on = self
            self.ctrl.yield_point("lock-wait")
        w.blocked_on = None
        self.owner = w.idx
        return True

    def release(self):
        self.owner = None
        w = self.ctrl.current_worker()
        if w is not None:
            self.ctrl.yield_point("lock-release")

    def __enter__(self):
        self.acquire()
        return self

    def __exit__(self, *a):
        self.release()

    def locked(self):
        return self.owner is not None


class Controller:
    """one execution of a set of workers under a given schedule prefix"""

    def __init__(self, codes, granularity="line", on_yield=None):
        self.codes = list(codes)
        self.granularity = granularity
        self.workers = []
        self.back = threading.Semaphore(0)
        self.tls = threading.local()
        self.on_yield = on_yield
        self.trace_choices = []     # (chosen idx, runnable idxs, previous idx)
        self.locks = []

    def lock_generator(self):
        lk = CoopLock(self)
        self.locks.append(lk)
        return lk

    def current_worker(self):
        return getattr(self.tls, "worker", None)

    # ---- worker side ----
    def yield_point(self, tag):
        w = self.current_worker()
        if w is None or getattr(self.tls, "in_yield", False):
            return
        self.tls.in_yield = True
        try:
            self.back.release()
            w.go.acquire()
        finally:
            self.tls.in_yield = False

    def _run_worker(self, w):
        self.tls.worker = w
        w.go.acquire()
        try:
            w.fn(w.idx)
        except BaseException as e:   # noqa
            w.error = e
        finally:
            w.done = True
            self.tls.worker = None
            self.back.release()

    # ---- monitoring ----
    def _install(self):
        ev = _mon.events.LINE if self.granularity == "line" else _mon.events.INSTRUCTION
        _mon.use_tool_id(TOOL, "verif-sched")

        def cb(code, *_):
            if self.current_worker() is not None:
                self.yield_point("line")
        _mon.register_callback(TOOL, ev, cb)
        for c in self.codes:
            _mon.set_local_events(TOOL, c, ev)
        self._ev = ev

    def _uninstall(self):
        for c in self.codes:
            _mon.set_local_events(TOOL, c, 0)
        _mon.register_callback(TOOL, self._ev, None)
        _mon.free_tool_id(TOOL)

    # ---- controller side ----
    def run(self, fns, prefix, max_steps=20000):
        """Runs the workers; scheduling choices follow `prefix` (list of worker indices), then the default
        policy (keep running the current worker while it can).  Returns the list of (choice, runnable, prev)."""
        self.workers = [Worker(i, f) for i, f in enumerate(fns)]
        self._install()
        try:
            for w in self.workers:
                w.thread = threading.Thread(target=self._run_worker, args=(w,), daemon=True)
                w.thread.start()
            cur = None
            step = 0
            while True:
                live = [w for w in self.workers if not w.done]
                if not live:
                    break
                runnable = [w.idx for w in live if w.blocked_on is None or w.blocked_on.owner is None]
                if not runnable:
                    raise Deadlock([w.idx for w in live])
                if step < len(prefix) and prefix[step] in runnable:
                    choice = prefix[step]
                elif cur is not None and cur in runnable:
                    choice = cur
                else:
                    choice = runnable[0]
                self.trace_choices.append((choice, tuple(runnable), cur))
                if self.on_yield:
                    self.on_yield(choice)
                cur = choice
                step += 1
                if step > max_steps:
                    raise RuntimeError("schedule too long")
                self.workers[choice].go.release()
                self.back.acquire()
            return self.trace_choices
        finally:
            # let parked workers of an aborted execution finish quietly
            for w in self.workers:
                if not w.done:
                    w.blocked_on = None
            for lk in self.locks:
                lk.owner = None
            for _ in range(3):
                for w in self.workers:
                    if not w.done:
                        for _ in range(2000):
                            if w.done:
                                break
                            w.go.release()
                            self.back.acquire(timeout=0.05)
            self._uninstall()


def explore(make_run, max_preemptions, max_execs=None):
    """Stateless DFS.  make_run(prefix) executes once and returns the choice list [(choice, runnable, prev)].
    Yields nothing; make_run is responsible for recording.  Children of an execution: at every step i >=
    len(prefix) every other runnable worker, if the preemption budget allows."""
    stack = [([], 0)]
    seen = 0
    while stack:
        prefix, used = stack.pop()
        choices = make_run(prefix)
        seen += 1
        if max_execs and seen >= max_execs:
            return seen
        for i in range(len(prefix), len(choices)):
            choice, runnable, prev = choices[i]
            for alt in runnable:
                if alt == choice:
                    continue
                cost = 1 if (prev is not None and prev in runnable and alt != prev) else 0
                if used + cost > max_preemptions:
                    continue
                stack.append(([c[0] for c in choices[:i]] + [alt], used + cost))
    return seen
