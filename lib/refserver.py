"""Reference memcached (text protocol semantics) used as the *environment* of the drivers.

It is deliberately independent of pymemcache.  Its behaviour is itself pinned by the TLA+
reference (spec/CacheRule.tla): C05's trace validation recomputes every reply-relevant outcome,
so a bug here shows up as a machinery error during development, never silently.

Simplifications (stated in DESIGN.md): no LRU eviction / slab limits; decr does not pad with
spaces; flush_all with a positive delay invalidates at now+delay; counters are uint64.
"""
from . import vclock

THIRTY_DAYS = 60 * 60 * 24 * 30
U64 = 2 ** 64


class Item:
    __slots__ = ("data", "flags", "exp", "cas")

    def __init__(self, data, flags, exp, cas):
        self.data, self.flags, self.exp, self.cas = data, flags, exp, cas


class RefServer:
    def __init__(self, name="srv", item_max=1024 * 1024, cluster=None):
        self.name = name
        self.store = {}
        self.cas_ctr = 0
        self.item_max = item_max
        self.flush_at = None
        self.log = []          # every parsed command record received, in order
        self.cluster = cluster  # callable -> bytes payload for "config get cluster"
        self.version = b"1.6.21-ref"
        self.down = False

    # -- time ---------------------------------------------------------------------
    def now(self):
        return vclock.now

    def _exp(self, exptime):
        if exptime == 0:
            return 0
        if exptime < 0:
            return -1                      # immediately expired
        if exptime > THIRTY_DAYS:
            return exptime                 # absolute unix time
        return self.now() + exptime

    def _live(self, key):
        it = self.store.get(key)
        if it is None:
            return None
        if it.exp == -1 or (it.exp != 0 and it.exp <= self.now()):
            del self.store[key]
            return None
        return it

    def _next_cas(self):
        self.cas_ctr += 1
        return self.cas_ctr

    # -- commands -----------------------------------------------------------------
    def apply(self, cmd):
        """cmd: record from lib.wire; returns reply bytes (b'' when noreply)."""
        self.log.append(cmd)
        if self.flush_at is not None and self.now() >= self.flush_at:
            self.store.clear()
            self.flush_at = None
        rep = self._apply(cmd)
        if cmd.get("noreply") and "error" not in cmd:
            return b""
        return rep

    def _apply(self, cmd):
        if cmd.get("verb") == b"mg" and cmd.get("error") == "unknown command":
            # the one meta command the repository's integration tests use: "mg <key> t" -> remaining ttl (-1: never expires)
            toks = cmd["raw"].split()
            it = self._live(toks[1]) if len(toks) >= 2 else None
            if it is None:
                return b"EN\r\n"
            ttl = -1 if it.exp == 0 else max(0, it.exp - self.now())
            return b"HD t%d\r\n" % ttl if b"t" in toks[2:] else b"HD\r\n"
        if "error" in cmd:
            if cmd["error"] in ("unknown command", "empty line", "bad get", "bad token count"):
                return b"ERROR\r\n"
            return b"CLIENT_ERROR " + cmd["error"].encode() + b"\r\n"
        v = cmd["verb"]
        if v in (b"set", b"add", b"replace", b"append", b"prepend", b"cas"):
            return self._store(cmd)
        if v in (b"get", b"gets", b"gat", b"gats"):
            out = []
            for k in cmd["keys"]:
                it = self._live(k)
                if it is None:
                    continue
                if v in (b"gat", b"gats"):
                    it.exp = self._exp(cmd["exptime"])
                    if self._live(k) is None:
                        pass  # touched into the past: still returned by this command, gone afterwards
                head = b"VALUE " + k + b" " + str(it.flags).encode() + b" " + str(len(it.data)).encode()
                if v in (b"gets", b"gats"):
                    head += b" " + str(it.cas).encode()
                out.append(head + b"\r\n" + it.data + b"\r\n")
            return b"".join(out) + b"END\r\n"
        if v == b"delete":
            if self._live(cmd["key"]) is None:
                return b"NOT_FOUND\r\n"
            del self.store[cmd["key"]]
            return b"DELETED\r\n"
        if v in (b"incr", b"decr"):
            it = self._live(cmd["key"])
            if it is None:
                return b"NOT_FOUND\r\n"
            if not it.data.isdigit() or len(it.data) > 20 or int(it.data) >= U64:
                return b"CLIENT_ERROR cannot increment or decrement non-numeric value\r\n"
            cur = int(it.data)
            new = (cur + cmd["delta"]) % U64 if v == b"incr" else max(0, cur - cmd["delta"])
            it.data = str(new).encode()
            it.cas = self._next_cas()
            return it.data + b"\r\n"
        if v == b"touch":
            it = self._live(cmd["key"])
            if it is None:
                return b"NOT_FOUND\r\n"
            it.exp = self._exp(cmd["exptime"])
            return b"TOUCHED\r\n"
        if v == b"flush_all":
            d = cmd.get("delay", 0)
            if d and d > 0:
                self.flush_at = self.now() + d
            else:
                self.store.clear()
            return b"OK\r\n"
        if v == b"version":
            return b"VERSION " + self.version + b"\r\n"
        if v == b"stats":
            return (b"STAT pid 4242\r\nSTAT version " + self.version + b"\r\nSTAT curr_items "
                    + str(len(self.store)).encode() + b"\r\nEND\r\n")
        if v == b"cache_memlimit":
            return b"OK\r\n"
        if v == b"quit":
            return b""
        if v == b"shutdown":
            return b"ERROR: shutdown not enabled\r\n"
        if v == b"config":
            if self.cluster is None:
                return b"ERROR\r\n"
            payload = self.cluster()
            if isinstance(payload, tuple):      # ("raw", bytes): a scripted reply
                return payload[1]
            return b"CONFIG cluster 0 " + str(len(payload)).encode() + b"\r\n" + payload + b"\r\nEND\r\n"
        return b"ERROR\r\n"

    def _store(self, cmd):
        v, k = cmd["verb"], cmd["key"]
        if len(cmd["data"]) > self.item_max:
            return b"SERVER_ERROR object too large for cache\r\n"
        it = self._live(k)
        if v == b"add" and it is not None:
            return b"NOT_STORED\r\n"
        if v in (b"replace", b"append", b"prepend") and it is None:
            return b"NOT_STORED\r\n"
        if v == b"cas":
            if it is None:
                return b"NOT_FOUND\r\n"
            if it.cas != cmd["cas"]:
                return b"EXISTS\r\n"
        if v == b"append":
            it.data = it.data + cmd["data"]
            it.cas = self._next_cas()
        elif v == b"prepend":
            it.data = cmd["data"] + it.data
            it.cas = self._next_cas()
        else:
            self.store[k] = Item(cmd["data"], cmd["flags"], self._exp(cmd["exptime"]), self._next_cas())
        return b"STORED\r\n"
