"""Strict memcached text-protocol request parser (server-grade tokenizer).

It does not know what the client *meant*: it splits the byte stream the way memcached's
try_read_command / tokenize_command does -- a command line ends at '\\n' (a preceding '\\r' is
stripped), tokens are separated by single spaces (empty tokens skipped), storage commands then
consume exactly <bytes> bytes of data followed by '\\r\\n'.  Anything that a real server would
answer with ERROR / CLIENT_ERROR is returned as a record with an 'error' field.
"""

STORAGE = {b"set", b"add", b"replace", b"append", b"prepend", b"cas"}
KEY_MAX = 250
U32 = 2 ** 32
U64 = 2 ** 64
I64 = 2 ** 63


def _uint(tok, limit):
    if not tok or not tok.isdigit():       # bytes.isdigit: ASCII digits only
        return None
    v = int(tok)
    return v if v < limit else None


def _sint(tok):
    t = tok[1:] if tok[:1] in (b"-", b"+") else tok
    if not t or not t.isdigit():
        return None
    v = int(tok)
    return v if -I64 <= v < I64 else None


class Parser:
    """Incremental parser for one connection."""

    def __init__(self):
        self.buf = b""
        self.pending = None  # storage command waiting for its data block

    def feed(self, data):
        """Returns the list of complete commands parsed from the stream so far."""
        self.buf += data
        out = []
        while True:
            if self.pending is not None:
                need = self.pending["bytes"] + 2
                if len(self.buf) < need:
                    break
                block, term = self.buf[:need - 2], self.buf[need - 2:need]
                self.buf = self.buf[need:]
                cmd, self.pending = self.pending, None
                if term != b"\r\n":
                    # memcached: "CLIENT_ERROR bad data chunk", then swallows up to the next newline
                    nl = self.buf.find(b"\n")
                    self.buf = self.buf[nl + 1:] if nl >= 0 else b""
                    out.append({"error": "bad data chunk", "verb": cmd["verb"], "raw": cmd["raw"]})
                else:
                    cmd["data"] = block
                    out.append(cmd)
                continue
            nl = self.buf.find(b"\n")
            if nl < 0:
                break
            line = self.buf[:nl]
            self.buf = self.buf[nl + 1:]
            if line.endswith(b"\r"):
                line = line[:-1]
            cmd = parse_line(line)
            if cmd.get("verb") in STORAGE and "error" not in cmd:
                self.pending = cmd
            else:
                out.append(cmd)
        return out

    @property
    def partial(self):
        """bytes received that do not yet form a complete command"""
        return len(self.buf) + (1 if self.pending is not None else 0)


def parse_line(line):
    toks = [t for t in line.split(b" ") if t]
    rec = {"raw": line}
    if not toks:
        rec["error"] = "empty line"
        return rec
    verb = toks[0]
    rec["verb"] = verb
    args = toks[1:]

    def noreply_tail(a, n):
        """a has n mandatory tokens, optionally followed by exactly 'noreply'"""
        if len(a) == n:
            return False
        if len(a) == n + 1 and a[n] == b"noreply":
            return True
        return None

    def key_ok(k):
        return 0 < len(k) <= KEY_MAX and not any(c < 33 or c == 127 for c in k if c in (0, 10, 13, 32))

    if verb in STORAGE:
        n = 5 if verb == b"cas" else 4
        nr = noreply_tail(args, n)
        if nr is None:
            rec["error"] = "bad token count"
            return rec
        key = args[0]
        flags, expt, nbytes = _uint(args[1], U32), _sint(args[2]), _sint(args[3])
        if len(key) > KEY_MAX or flags is None or expt is None or nbytes is None or nbytes < 0:
            rec["error"] = "bad command line format"
            return rec
        rec.update(key=key, flags=flags, exptime=expt, bytes=nbytes, noreply=nr)
        if verb == b"cas":
            cas = _uint(args[4], U64)
            if cas is None:
                rec["error"] = "bad command line format"
                return rec
            rec["cas"] = cas
        return rec
    if verb in (b"get", b"gets"):
        if not args or any(len(k) > KEY_MAX for k in args):
            rec["error"] = "bad get"
            return rec
        rec.update(keys=args, noreply=False)
        return rec
    if verb in (b"gat", b"gats"):
        if len(args) < 2 or _sint(args[0]) is None or any(len(k) > KEY_MAX for k in args[1:]):
            rec["error"] = "bad gat"
            return rec
        rec.update(exptime=_sint(args[0]), keys=args[1:], noreply=False)
        return rec
    if verb == b"delete":
        # memcached accepts "delete <key> [0] [noreply]"
        a = list(args)
        if len(a) >= 2 and a[1] == b"0":
            del a[1]
        nr = noreply_tail(a, 1)
        if nr is None or len(a[0]) > KEY_MAX:
            rec["error"] = "bad delete"
            return rec
        rec.update(key=a[0], noreply=nr)
        return rec
    if verb in (b"incr", b"decr"):
        nr = noreply_tail(args, 2)
        if nr is None or len(args[0]) > KEY_MAX:
            rec["error"] = "bad incr"
            return rec
        d = _uint(args[1], U64)
        if d is None:
            rec["error"] = "invalid numeric delta argument"
            return rec
        rec.update(key=args[0], delta=d, noreply=nr)
        return rec
    if verb == b"touch":
        nr = noreply_tail(args, 2)
        if nr is None or len(args[0]) > KEY_MAX or _sint(args[1]) is None:
            rec["error"] = "bad touch"
            return rec
        rec.update(key=args[0], exptime=_sint(args[1]), noreply=nr)
        return rec
    if verb == b"flush_all":
        a = list(args)
        nr = False
        if a and a[-1] == b"noreply":
            nr = True
            a.pop()
        if len(a) > 1 or (a and _sint(a[0]) is None):
            rec["error"] = "bad flush_all"
            return rec
        rec.update(delay=_sint(a[0]) if a else 0, noreply=nr)
        return rec
    if verb == b"cache_memlimit":
        nr = noreply_tail(args, 1)
        if nr is None or _uint(args[0], U64) is None:
            rec["error"] = "bad cache_memlimit"
            return rec
        rec.update(limit=_uint(args[0], U64), noreply=nr)
        return rec
    if verb in (b"version", b"quit"):
        if args:
            rec["error"] = "trailing tokens"
        rec["noreply"] = verb == b"quit"
        return rec
    if verb == b"shutdown":
        if args not in ([], [b"graceful"]):
            rec["error"] = "bad shutdown"
        rec.update(graceful=bool(args), noreply=False)
        return rec
    if verb == b"stats":
        rec.update(args=args, noreply=False)
        return rec
    if verb == b"config":
        rec.update(args=args, noreply=False)
        if args != [b"get", b"cluster"]:
            rec["error"] = "unsupported config"
        return rec
    rec["error"] = "unknown command"
    return rec
