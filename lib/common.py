"""Shared plumbing for all property drivers: paths, scratch space, evidence files,
known findings, violation reporting.

Conventions (DESIGN.md section 2.3):
  exit 0  property held on everything explored (known findings are printed, not alarmed)
  exit 1  at least one violation that known_findings.json does not list; one line
          "VIOLATION property=<id> replay=<path>" per distinct signature
  exit 2  machinery failure (TLC crash, harness exception, reference data disagreeing with spec)
"""
import atexit
import hashlib
import json
import os
import shutil
import sys
import tempfile
import time

VERIF = os.path.dirname(os.path.dirname(os.path.abspath(__file__)))
REPO = os.environ.get("VERIF_REPO", "/repo")
SPEC_DIR = os.path.join(VERIF, "spec")
EVIDENCE_DIR = os.environ.get("VERIF_EVIDENCE_DIR") or os.path.join(VERIF, "evidence")   # redirected by the mutant tools
REPLAY_DIR = os.environ.get("VERIF_REPLAY_DIR") or os.path.join(VERIF, "replays")
KNOWN_FINDINGS = os.path.join(VERIF, "known_findings.json")

_scratch = None
_real_time = time.time  # captured before lib.vclock may virtualise the clock


def scratch():
    """A per-run scratch directory, removed at exit. Nothing registered depends on
    anything that exists under /tmp before the run."""
    global _scratch
    if _scratch is None:
        base = os.environ.get("VERIF_SCRATCH_BASE") or tempfile.gettempdir()
        _scratch = tempfile.mkdtemp(prefix="verif-", dir=base)
        atexit.register(shutil.rmtree, _scratch, True)
    return _scratch


def subscratch(name):
    d = tempfile.mkdtemp(prefix=name + "-", dir=scratch())
    return d


def seed():
    try:
        return int(os.environ.get("VERIF_SEED", "0"))
    except ValueError:
        return 0


def import_repo():
    """Make `import pymemcache` resolve to the *current working tree* of REPO."""
    sys.dont_write_bytecode = True
    if REPO in sys.path:
        sys.path.remove(REPO)
    sys.path.insert(0, REPO)
    for m in list(sys.modules):
        if m == "pymemcache" or m.startswith("pymemcache."):
            del sys.modules[m]
    import logging
    logging.disable(logging.CRITICAL)     # the library logs expected failures (with tracebacks) to stderr
    import pymemcache  # noqa

    got = os.path.dirname(os.path.dirname(os.path.abspath(pymemcache.__file__)))
    if os.path.realpath(got) != os.path.realpath(REPO):
        raise MachineryError(f"pymemcache imported from {got}, expected {REPO}")
    return pymemcache


class MachineryError(Exception):
    pass


def jsonable(x, depth=0):
    """Best-effort conversion of samples / witnesses into JSON."""
    if depth > 8:
        return repr(x)
    if isinstance(x, (str, int, float, bool)) or x is None:
        return x
    if isinstance(x, bytes):
        try:
            s = x.decode("ascii")
            if s.isprintable():
                return "b:" + s
        except UnicodeDecodeError:
            pass
        return "hex:" + x.hex()
    if isinstance(x, dict):
        return {str(jsonable(k, depth + 1)): jsonable(v, depth + 1) for k, v in x.items()}
    if isinstance(x, (list, tuple, set, frozenset)):
        return [jsonable(v, depth + 1) for v in x]
    return repr(x)


class Report:
    """Collects violations / known findings / drift notes for one property run and
    writes the evidence file."""

    def __init__(self, prop, tier, level):
        self.prop = prop
        self.tier = tier
        self.level = level
        self.t0 = _real_time()
        self.violations = {}  # signature -> (what, witness)
        self.known_hits = {}  # signature -> what
        self.drift = []
        self.notes = []
        self.coverage = {}
        self.assumptions = []
        self.samples = []
        with open(KNOWN_FINDINGS) as f:
            kf = json.load(f)
        self.known = {
            e["signature"]: e
            for e in kf.get("findings", [])
            if e.get("property") == prop and e.get("status") == "known"
        }
        self.fixed = {
            e["signature"]: e
            for e in kf.get("findings", [])
            if e.get("property") == prop and e.get("status") == "fixed"
        }

    # -- results -----------------------------------------------------------------
    def violation(self, signature, what, witness):
        """signature: stable identifier of the failing call site / input class / clause."""
        if signature in self.known:
            self.known_hits.setdefault(signature, what)
            return
        if signature not in self.violations:
            self.violations[signature] = (what, witness)

    def model_drift(self, what, witness=None):
        if len(self.drift) < 50:
            self.drift.append({"what": what, "witness": jsonable(witness)})
        else:
            self.drift.append(None)

    def note(self, s):
        self.notes.append(s)

    def sample(self, s, cap=6):
        if len(self.samples) < cap:
            self.samples.append(jsonable(s))

    def add(self, key, n=1):
        self.coverage[key] = self.coverage.get(key, 0) + n

    def set(self, key, v):
        self.coverage[key] = v

    # -- finish ------------------------------------------------------------------
    def finish(self):
        os.makedirs(EVIDENCE_DIR, exist_ok=True)
        wall = _real_time() - self.t0
        cov = dict(self.coverage)
        cov.setdefault("samples", self.samples or ["(no sample recorded)"])
        if self.samples:
            cov["samples"] = self.samples
        cov["model_drift"] = len(self.drift)
        if self.drift:
            cov["model_drift_examples"] = [d for d in self.drift if d][:5]
        cov["known_findings_hit"] = sorted(self.known_hits)
        if self.notes:
            cov["notes"] = self.notes
        ev = {
            "property_id": self.prop,
            "tier": self.tier,
            "seed": seed(),
            "level": self.level,
            "coverage": cov,
            "assumptions": self.assumptions,
            "wall_s": round(wall, 3),
            "violations": len(self.violations),
        }
        path = os.path.join(EVIDENCE_DIR, self.prop + ".json")
        tmp = path + ".tmp"
        with open(tmp, "w") as f:
            json.dump(ev, f, indent=1, sort_keys=True)
            f.write("\n")
        os.replace(tmp, path)
        for sig, what in sorted(self.known_hits.items()):
            print(f"KNOWN-FINDING: property={self.prop} {sig}: {self.known[sig].get('what', what)}")
        if self.drift:
            print(f"MODEL-DRIFT: property={self.prop} {len(self.drift)} divergences from the as-coded model "
                  f"(contract still satisfied; see evidence)")
        rc = 0
        if self.violations:
            rc = 1
            d = os.path.join(REPLAY_DIR, self.prop)
            os.makedirs(d, exist_ok=True)
            for sig, (what, witness) in sorted(self.violations.items()):
                h = hashlib.sha1(sig.encode()).hexdigest()[:10]
                p = os.path.join(d, f"{h}.json")
                with open(p, "w") as f:
                    json.dump({"property": self.prop, "signature": sig, "what": what,
                               "seed": seed(), "tier": self.tier,
                               "witness": jsonable(witness)}, f, indent=1)
                    f.write("\n")
                print(f"VIOLATION property={self.prop} replay={p}")
                print(f"  signature: {sig}")
                print(f"  what: {what}")
        print(f"{self.prop} [{self.tier}] {'FAIL' if rc else 'ok'} "
              f"wall={wall:.1f}s " + " ".join(f"{k}={v}" for k, v in sorted(cov.items())
                                             if isinstance(v, (int, bool)) and not isinstance(v, list)))
        return rc
