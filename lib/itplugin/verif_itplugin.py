"""pytest plugin: runs the repository's OWN integration tests (pymemcache/test/test_integration.py, normally
deselected because they need a memcached) against the reference server behind the fake socket module, and
records every public call with the socket activity it caused, one trace per client object, in the event
format of spec/ConnRule.tla.  The traces are written to $VERIF_IT_OUT (NDJSON) and validated by TLC afterwards;
the plugin itself judges nothing.

Loaded with `-p verif_itplugin` (PYTHONPATH holds this directory and /verif)."""
import json
import os
import sys

import pytest

from lib import fakesock, refserver, vclock

vclock.install()

READ_OPS = {"get", "gets", "get_many", "gets_many", "get_multi", "gat", "gats"}
SKIP = {"check_key", "disconnect_all"}


class State:
    server = None          # the reference memcached of the current test
    nets = {}              # id(client object) -> FakeNet
    clients = []           # outermost client objects, in order of first use
    current = None         # FakeNet serving the call in progress
    depth = 0
    counters = {}
    out = None
    test = ""
    sent = []              # what each public call (raw_command excepted) wrote, for the TLA+ tokenizer


class NetProxy:
    """what the tests pass as socket_module: forwards to the fake network of the client whose call is running"""

    def __getattr__(self, name):
        net = State.current
        if net is None:
            net = fakesock.FakeNet      # constants only (class attributes)
        return getattr(net, name)

    def __repr__(self):
        return "verif-fake-socket-module"


PROXY = NetProxy()


def owner_of(obj):
    """a test may reach into a HashClient and use one of its per-server clients directly: same stack, same trace"""
    for o in State.clients:
        if any(inner is obj for inner in getattr(o, "clients", {}).values()):
            return o
    return obj


def net_for(obj, host_port):
    key = id(obj)
    if key not in State.nets:
        net = fakesock.FakeNet()
        net.add_server(host_port, server=State.server)
        net.add_server(("localhost", 11211), server=State.server)
        State.nets[key] = net
        State.clients.append(obj)
        State.counters[key] = 0
    return State.nets[key]


def kind_of(obj):
    from pymemcache.client.base import PooledClient
    from pymemcache.client.hash import HashClient
    if isinstance(obj, HashClient):
        return "hashpooled" if obj.use_pooling else "hash"
    if isinstance(obj, PooledClient):
        return "pooled"
    return "client"


def used_of(obj):
    pools = []
    if hasattr(obj, "client_pool"):
        pools.append(obj.client_pool)
    for inner in getattr(obj, "clients", {}).values():
        if hasattr(inner, "client_pool"):
            pools.append(inner.client_pool)
    return sum(len(p.used) for p in pools)


def server_of(obj):
    s = getattr(obj, "server", None)
    if s is None and getattr(obj, "clients", None):
        s = list(obj.clients.values())[0].server
    return s if isinstance(s, tuple) else ("localhost", 11211)


def wrap(cls, name):
    orig = cls.__dict__[name]

    def method(self, *a, **k):
        if State.depth > 0 or State.server is None:
            return orig(self, *a, **k)
        top = owner_of(self)
        net = net_for(top, server_of(top))
        key = id(top)
        State.counters[key] += 1
        c = State.counters[key]
        opkind = "quit" if name in ("quit", "shutdown") else "close" if name == "close" else "data"
        callev = {"e": "call", "c": c, "op": name, "kind": opkind, "rfault": False, "ro": name in READ_OPS}
        net.log.append(callev)
        net.begin_call(c, None, ["all", "bytes", 4096, "aftercr"][c % 4])
        w0 = len(net.wire_log)
        State.current = net
        State.depth += 1
        try:
            val = orig(self, *a, **k)
        except BaseException as exc:
            from pymemcache.exceptions import MemcacheIllegalInputError
            if isinstance(exc, MemcacheIllegalInputError):
                callev["rfault"] = True      # the test passed an illegal argument on purpose: the call is expected to raise
            net.log.append({"e": "raise", "c": c, "x": "exc" if isinstance(exc, Exception) else "base",
                            "xn": type(exc).__name__, "pend": net.boundary(), "used": used_of(top)})
            raise
        else:
            net.log.append({"e": "ret", "c": c, "pend": net.boundary(), "used": used_of(top), "shape": "other"})
            return val
        finally:
            State.depth -= 1
            State.current = None
            raw = b"".join(d for _, d in net.wire_log[w0:])
            if raw and name != "raw_command" and len(raw) <= 6000:
                State.sent.append({"e": "sent", "op": name, "raw": list(raw)})
    method.__name__ = name
    method.__wrapped_by_verif__ = True
    setattr(cls, name, method)


def pytest_configure(config):
    from pymemcache.client.base import Client, PooledClient
    from pymemcache.client.hash import HashClient
    State.out = open(os.environ["VERIF_IT_OUT"], "w")
    for cls in (Client, PooledClient, HashClient):
        for name, attr in list(cls.__dict__.items()):
            if name.startswith("_") or name in SKIP or not callable(attr) or isinstance(attr, (staticmethod, classmethod, type)):
                continue
            if getattr(attr, "__wrapped_by_verif__", False):
                continue
            wrap(cls, name)


@pytest.hookimpl(hookwrapper=True)
def pytest_generate_tests(metafunc):
    orig = metafunc.parametrize

    def parametrize(argnames, argvalues, *a, **k):
        if argnames == "socket_module":
            argvalues = [PROXY]
            k.setdefault("ids", ["fakenet"])
        return orig(argnames, argvalues, *a, **k)
    metafunc.parametrize = parametrize
    yield


@pytest.hookimpl(hookwrapper=True)
def pytest_runtest_call(item):
    State.server = refserver.RefServer(name="it")
    State.server.cas_ctr = 1000      # a memcached that has been running for a while: cas ids are not small numbers
    State.nets, State.clients, State.counters, State.sent = {}, [], {}, []
    State.test = item.nodeid
    vclock.set_now(5_000_000)
    outcome = yield
    failed = outcome.excinfo is not None
    for obj in State.clients:
        net = State.nets[id(obj)]
        try:
            obj.close()          # recorded like any other call: afterwards nothing may be open
        except Exception:
            pass
        net.log.append({"e": "end"})
        cfg = getattr(obj, "default_kwargs", None) or {"connect_timeout": getattr(obj, "connect_timeout", None),
                                                          "timeout": getattr(obj, "timeout", None)}
        hdr = {"kind": kind_of(obj), "tls": False,
               "ctmo": -1 if cfg.get("connect_timeout") is None else cfg["connect_timeout"],
               "tmo": -1 if cfg.get("timeout") is None else cfg["timeout"],
               "idle": 0, "ignore_exc": bool(getattr(obj, "ignore_exc", False))}
        State.out.write(json.dumps({"h": hdr, "ev": net.log, "test": item.nodeid, "test_failed": failed}) + "\n")
    if State.sent:
        State.out.write(json.dumps({"h": {"wire": True}, "ev": State.sent, "test": item.nodeid, "test_failed": failed}) + "\n")
    State.out.flush()
    State.server = None
