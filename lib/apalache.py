"""Apalache (symbolic, bounded) as a second engine for small integer/set lemmas that TLC can only sample."""
import os
import re
import shutil
import subprocess

from . import common


def check(module, inv, length=0, defs=None, timeout=900, init=None, tag=""):
    """Runs `apalache-mc check --inv=<inv>` on spec/<module>.tla (constants substituted textually from defs).
    Returns (verdict, detail): verdict in {"ok", "violated", "unavailable"}."""
    exe = shutil.which("apalache-mc")
    if not exe:
        return "unavailable", "apalache-mc not on PATH"
    d = common.subscratch("apalache" + tag)
    src = open(os.path.join(common.VERIF, "spec", module + ".tla")).read()
    for k, v in (defs or {}).items():
        src, n = re.subn(r"(?m)^%s == .*$" % re.escape(k), "%s == %s" % (k, v), src)
        if n != 1:
            raise common.MachineryError("cannot set %s in %s.tla" % (k, module))
    with open(os.path.join(d, module + ".tla"), "w") as f:
        f.write(src)
    try:
        p = subprocess.run([exe, "check", "--inv=" + inv, "--length=%d" % length, "--out-dir=" + os.path.join(d, "out")]
                           + (["--init=" + init] if init else []) + [module + ".tla"], cwd=d, stdout=subprocess.PIPE, stderr=subprocess.STDOUT, text=True, timeout=timeout)
    except subprocess.TimeoutExpired:
        return "unavailable", "timeout after %ds" % timeout
    out = p.stdout
    if "The outcome is: NoError" in out and p.returncode == 0:
        return "ok", out[-400:]
    if "invariant" in out and "violated" in out:
        m = re.search(r"Check the trace in: (\S+?violation1\.tla)", out)
        trace = open(m.group(1)).read()[:4000] if m and os.path.exists(m.group(1)) else out[-1500:]
        return "violated", trace
    return "unavailable", out[-600:]
