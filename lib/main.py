"""Entry point: ./check <ID> [--tier quick|thorough] [--replay file]"""
import argparse
import importlib
import os
import sys
import traceback

HERE = os.path.dirname(os.path.dirname(os.path.abspath(__file__)))
sys.path.insert(0, HERE)

from lib import common  # noqa: E402

LEVELS = {
    "C01": "model_checking", "C02": "model_checking", "C03": "model_checking", "C04": "exploration",
    "C05": "model_checking", "C06": "model_checking", "C07": "model_checking", "C08": "model_checking",
    "C09": "model_checking", "C10": "model_checking", "C11": "model_checking", "C12": "model_checking",
    "C13": "model_checking", "C14": "model_checking", "C15": "exploration", "C16": "model_checking",
    "C17": "model_checking", "C18": "model_checking", "C19": "model_checking", "C20": "model_checking",
}


def run_one(pid, tier, replay=None):
    mod = importlib.import_module("drivers." + pid.lower())
    rep = common.Report(pid, tier, getattr(mod, "LEVEL", LEVELS.get(pid, "model_checking")))
    try:
        if replay and hasattr(mod, "replay"):
            mod.replay(replay, rep)
        elif replay:
            # generic replay: re-run the check at the witness's tier/seed and keep only its signature
            import json
            w = json.load(open(replay))
            os.environ["VERIF_SEED"] = str(w.get("seed", 0))
            rep.tier = w.get("tier", tier)
            mod.main(rep.tier, rep)
            rep.violations = {k: v for k, v in rep.violations.items() if k == w["signature"]}
            print("replay:", "REPRODUCED" if rep.violations else "not reproduced on this tree", w["signature"])
        else:
            mod.main(tier, rep)
    except common.MachineryError as e:
        print(f"MACHINERY-ERROR property={pid}: {e}", file=sys.stderr)
        return 2
    except Exception:
        traceback.print_exc()
        print(f"MACHINERY-ERROR property={pid}: unhandled exception in driver", file=sys.stderr)
        return 2
    except BaseException as e:   # noqa: B902
        from lib import fakesock
        if isinstance(e, fakesock.WouldBlockForever):
            # a library call of this driver waits for bytes that will never arrive (on a real socket: for ever, or until the
            # timeout): no property is compatible with a call that does not come back.  Reported as a violation, never as
            # a bare traceback with exit status 1.
            tb = "".join(traceback.format_exception(type(e), e, e.__traceback__)[-12:])
            rep.violation(f"{pid}/a-call-waits-for-a-reply-that-will-never-come", "a call made by this check blocks on the socket: " + str(e),
                          {"traceback": tb})
            return rep.finish()
        traceback.print_exc()
        print(f"MACHINERY-ERROR property={pid}: driver interrupted by {type(e).__name__}", file=sys.stderr)
        return 2
    return rep.finish()


def main():
    ap = argparse.ArgumentParser()
    ap.add_argument("id")
    ap.add_argument("--tier", default=os.environ.get("VERIF_TIER", "quick"), choices=["quick", "thorough"])
    ap.add_argument("--replay")
    a = ap.parse_args()
    os.chdir(HERE)
    if a.id == "all":
        rc = 0
        for pid in sorted(LEVELS):
            if os.path.exists(os.path.join(HERE, "drivers", pid.lower() + ".py")):
                rc = max(rc, os.spawnv(os.P_WAIT, sys.executable,
                                       [sys.executable, "-B", __file__, pid, "--tier", a.tier]))
        sys.exit(rc)
    sys.exit(run_one(a.id.upper(), a.tier, a.replay))


if __name__ == "__main__":
    main()
