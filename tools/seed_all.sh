#!/bin/sh
# re-evaluates every seeded change with the current checks; extra checks per mutant as noted
cd /verif
for d in seeded/*/; do
  n=$(basename $d); P=${n%-*}; M=${n#*-}
  extra=""
  case $n in C04-m1) extra="C03";; C11-m2) extra="C14";; C19-m1) extra="C03";; C10-m1|C10-m2) extra="";; esac
  tools/seed_eval.sh $P $M $P $extra 2>&1 | cut -c1-400
done
