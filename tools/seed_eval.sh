#!/bin/sh
# tools/seed_eval.sh <PROP> <m1|m2> [check-ids...]
# Confirms a sub-agent's seeded change in its scratch worktree (/tmp/wt/<PROP>): demo passes on the
# clean tree, with the patch the 488 pinned tests pass and the demo fails; then stores it under
# /verif/seeded/<PROP>-<m>/ and runs the named checks (default: <PROP>) against the patched tree.
set -u
P=$1; M=$2; shift 2
CHECKS="${*:-$P}"
WT=${WT_BASE:-/tmp/wt}/$P
SRC=$WT/out/$M
DST=/verif/seeded/$P-${MUT_PREFIX:-}$M
[ -f "$SRC/patch.diff" ] || { echo "no patch at $SRC"; exit 2; }
cd "$WT" || exit 2
git checkout -q -- . 2>/dev/null
git apply --check "$SRC/patch.diff" || { echo "patch does not apply"; exit 2; }
/venv/bin/python out/$M/demo.py >/dev/null 2>&1; clean_rc=$?
git apply "$SRC/patch.diff"
tests=$(/venv/bin/python -m pytest -q -p no:cacheprovider -x 2>&1 | grep -E "passed|failed" | tail -1)
/venv/bin/python out/$M/demo.py >/dev/null 2>&1; mut_rc=$?
echo "[$P-$M] demo clean rc=$clean_rc, patched rc=$mut_rc; tests: $tests"
ok=1
[ "$clean_rc" = 0 ] || ok=0
[ "$mut_rc" != 0 ] || ok=0
echo "$tests" | grep -q "488 passed" || ok=0
mkdir -p "$DST"
cp "$SRC/patch.diff" "$SRC/demo.py" "$DST/"
[ -f "$SRC/note.txt" ] && cp "$SRC/note.txt" "$DST/"
results=""
for C in $CHECKS; do
  out=$(cd /verif && VERIF_EVIDENCE_DIR=/tmp/mut-evidence-$P VERIF_REPLAY_DIR=/tmp/mut-replays-$P VERIF_REPO="$WT" ./check "$C" --tier quick 2>&1); rc=$?
  sig=$(echo "$out" | grep -A1 "^VIOLATION" | grep signature | head -3 | tr '\n' ';')
  echo "  check $C rc=$rc $sig"
  sigj=$(echo "$out" | grep signature | head -4 | sed 's/^ *signature: //' | python3 -c "import sys,json; print(json.dumps([l.strip() for l in sys.stdin]))")
  results="$results {\"check\": \"$C\", \"rc\": $rc, \"caught\": $( [ $rc = 1 ] && echo true || echo false ), \"signatures\": $sigj},"
done
git checkout -q -- . ; rm -f coverage.xml; git status --short | grep -v '^?? out/' | head -3
cat > "$DST/meta.json" <<EOF
{
 "property": "$P",
 "mutant": "$M",
 "confirmed": $( [ $ok = 1 ] && echo true || echo false ),
 "confirmation": "in scratch worktree $WT: demo.py exit $clean_rc on the clean tree; with patch.diff applied: '$tests', demo.py exit $mut_rc",
 "needs": $(python3 -c "import json,sys; print(json.dumps(open('$SRC/note.txt').read() if __import__('os').path.exists('$SRC/note.txt') else ''))"),
 "checks_run": [${results%,}]
}
EOF
exit 0
