#!/bin/bash
# tools/run_benign_par.sh [file-pattern] [jobs] [ALL] -- like run_benign.sh, several (patch, check) pairs at a time.
# With ALL as third argument every patch is run through all twenty checks, not only the mapped ones.
cd /verif
PAT=${1:-.}; J=${2:-4}; ALL=$3
one() {
  f=$1; c=$2
  out=$(tools/withpatch.sh benign/$f -- ./check $c 2>&1); rc=$?
  if echo "$out" | grep -q "^VIOLATION"; then echo "FALSE-ALARM $f $c: $(echo "$out" | grep signature | head -2 | tr '\n' ' ' | cut -c1-300)";
  elif [ $rc != 0 ] || echo "$out" | grep -q "MACHINERY\|cannot open\|rejects"; then echo "ERROR $f $c rc=$rc: $(echo "$out" | grep 'MACHINERY\|Error\|error' | head -2 | tr '\n' ' ' | cut -c1-300)";
  else echo "silent $f $c $(echo "$out" | grep -c MODEL-DRIFT) drift-notes"; fi
}
export -f one
grep -v '^#' benign/MAP | grep -e "$PAT" | while read f checks; do
  [ -n "$ALL" ] && checks="C01 C02 C03 C04 C05 C06 C07 C08 C09 C10 C11 C12 C13 C14 C15 C16 C17 C18 C19 C20"
  for c in $checks; do echo "$f $c"; done
done | xargs -P "$J" -L 1 bash -c 'one $0 $1'
