#!/bin/sh
# tools/run_benign.sh [CHECK-ID] -- applies every property-preserving refactoring of benign/MAP to a scratch copy of
# /repo, confirms the pinned tests still pass there, and requires the mapped checks to stay silent (exit 0).
cd /verif
grep -v '^#' benign/MAP | while read f checks; do
  for c in $checks; do
    [ -n "$1" ] && [ "$1" != "$c" ] && continue
    out=$(tools/withpatch.sh benign/$f -- ./check $c 2>&1); rc=$?
    if echo "$out" | grep -q "^VIOLATION"; then echo "FALSE-ALARM $f $c: $(echo "$out" | grep signature | head -2 | tr '\n' ' ' | cut -c1-240)";
    elif echo "$out" | grep -q "MACHINERY\|cannot open\|FAILED\|rejects"; then echo "ERROR $f $c: $(echo "$out" | grep 'MACHINERY\|FAILED' | head -1 | cut -c1-200)";
    else echo "silent $f $c $(echo "$out" | grep -c MODEL-DRIFT) drift-notes"; fi
  done
done
