#!/usr/bin/env python3
"""Regenerates MANIFEST.json from the table below (kept valid at all times)."""
import json
import os

HERE = os.path.dirname(os.path.dirname(os.path.abspath(__file__)))

TRUST = ("TLC 1.8.0 + CommunityModules; CPython 3.12; the fake socket module / scripted inner clients / "
         "virtual clock of /verif/lib stand for the network, servers and time; bounds as stated in the evidence file")

# id -> dict(category, text, technique, design_ref, note)
CHECKS = {
    "C17": dict(
        category="model_checking",
        text="TLC explores the as-coded model of RetryingClient.__init__/_retry (spec/Retrying.tla) against the contract "
             "monitor (spec/RetryRule.tla) for every configuration (attempts 0..3 quick / 0..5 thorough, every "
             "retry_for / do_not_retry_for subset of a 4-class hierarchy plus a non-exception class) and every outcome "
             "sequence, exports every complete behaviour, replays each into the real class, and validates every recorded "
             "execution against the contract in TLC (spec/RetryingTrace.tla). Exhaustive within the bound, which is the "
             "whole decision table of the property.",
        technique="TLA+ model + TLC exhaustive exploration; spec-to-code replay of every behaviour; TLC trace validation of every execution",
        design_ref="4 C17",
        note=TRUST),
    "C18": dict(
        category="model_checking",
        text="TLC enumerates every number of caches (1..4), every hit/miss assignment and every FallbackClient operation on the "
             "as-coded model (spec/Fallback.tla), checks it against the contract monitor (spec/FallbackRule.tla: order of "
             "consultation, stop at first answer, writes only to the primary with the caller's arguments), exports every "
             "behaviour, replays each into the real class over scripted caches with argument-spelling and hit-value variants "
             "(falsy hits, None/empty misses), and validates every recorded execution against the contract in TLC. Exhaustive "
             "for the stated universe, which is the property's whole quantifier.",
        technique="TLA+ model + TLC exhaustive exploration; spec-to-code replay; TLC trace validation",
        design_ref="4 C18",
        note=TRUST),
}

NOT_YET = "check not built yet in this round (planned in DESIGN.md section 4); no claim made"
ALL = ["C%02d" % i for i in range(1, 21)]


def main():
    checks = []
    for pid in ALL:
        if pid not in CHECKS:
            continue
        c = CHECKS[pid]
        checks.append({
            "property_id": pid,
            "quick_cmd": f"./check {pid} --tier quick",
            "thorough_cmd": f"./check {pid} --tier thorough",
            "evidence_file": f"/verif/evidence/{pid}.json",
            "replay_cmd_template": f"./check {pid} --replay {{path}}",
            "engine": "tlc",
            "level_claimed": {"category": c["category"], "text": c["text"], "design_ref": c["design_ref"]},
            "level_note": c["note"],
            "technique": c["technique"],
        })
    man = {
        "version": 1,
        "setup_cmd": "./setup.sh",
        "hooks": {
            "guard": "PYMEMCACHE_VERIF",
            "enable": "no source hooks: the checks observe pymemcache only through its own substitution points "
                      "(socket_module, client_class, lock_generator, hasher, serde, time/sleep replaced before import, sys.monitoring)",
            "baseline_off_cmd": "cd /repo && /venv/bin/python -m pytest -ra -q -p no:cacheprovider --timeout=900 --continue-on-collection-errors",
            "source_commits": [],
            "add_only": True,
        },
        "engines": [
            {"name": "tlc", "path": "/verif/check", "serves_properties": sorted(CHECKS),
             "kind_free_text": "explicit TLA+ specifications (spec/*.tla) model-checked with TLC; behaviours exported from TLC "
                               "are replayed into the real code; executions recorded from the real code are validated by TLC "
                               "against contract monitors (spec/TraceRun.tla idiom)"},
        ],
        "checks": checks,
        "notes": "See DESIGN.md. Every verdict comes from a TLA+ contract monitor evaluated by TLC on executions of the real code; "
                 "differences from the as-coded model that the contract accepts are reported as MODEL-DRIFT, not as violations.",
        "not_applicable": [{"property_id": p, "reason": NA.get(p, NOT_YET)} for p in ALL if p not in CHECKS],
    }
    with open(os.path.join(HERE, "MANIFEST.json"), "w") as f:
        json.dump(man, f, indent=1)
        f.write("\n")


NA = {}

if __name__ == "__main__":
    main()
