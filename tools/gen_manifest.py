#!/usr/bin/env python3
"""Regenerates MANIFEST.json from the table below (kept valid at all times)."""
import json
import os

HERE = os.path.dirname(os.path.dirname(os.path.abspath(__file__)))

TRUST = ("TLC 1.8.0 + CommunityModules; CPython 3.12; the fake socket module / scripted inner clients / "
         "virtual clock of /verif/lib stand for the network, servers and time; bounds as stated in the evidence file")

# id -> dict(category, text, technique, design_ref, note)
CONN_NOTE = TRUST + " One fault per call; the server honours noreply and sends no unsolicited bytes; sequential use of one client object."

CHECKS = {
    "C01": dict(
        category="model_checking",
        text="Every public data operation x noreply variants x every single-fault plan (each socket call of the operation x "
             "{timeout, reset, EOF, refused, partial send, EINTR...}; each command's reply x {ERROR, CLIENT_ERROR, SERVER_ERROR, garbage, "
             "truncation at a byte then EOF or silence}) x reply segmentations, on Client / PooledClient / HashClient (plain and pooled), "
             "fresh and warm connections, followed by further healthy calls, is executed against the fake socket module whose reply "
             "bytes are tagged with the call they answer; every execution is validated by TLC against the TLA+ contract monitor "
             "spec/ConnRule.tla (reads only own replies, nothing left unread or half-sent on a connection that stays open, no read "
             "after noreply, never blocks on a reply that will not come).",
        technique="TLA+ contract monitor (ConnRule.tla) evaluated by TLC over recorded executions (trace validation); exhaustive single-fault enumeration",
        design_ref="4 C01", note=CONN_NOTE),
    "C02": dict(
        category="model_checking",
        text="Every key-taking operation x key corpus (legal keys at the 250-byte boundary with and without prefix; illegal classes incl. empty, "
             "whitespace-only, embedded CR LF + command injection, NUL, control bytes, over-long, non-ASCII) x multi-key batches with an illegal key "
             "first/middle/last x values containing protocol text x integer arguments over the protocol's ranges (expiry +-2^63, flags 2^32-1, "
             "cas/delta 2^64-1) and non-integers x noreply / default_noreply x prefix x unicode x encoding x Client/PooledClient/HashClient, plus "
             "seeded random combinations. The bytes given to sendall() are parsed by an independent strict parser (lib/wire.py) and TLC decides "
             "each call with spec/WireRule.tla over spec/KeyRule.tla: input error before a single byte is written, or exactly the intended "
             "command records (verb, prefixed key computed in TLA+, flags, expiry, length, data descriptor, cas, delta, effective noreply) and "
             "nothing left over.",
        technique="TLA+ grammar + tokenizer (Proto.tla) model-checked for unambiguity / injection (ProtoMC.tla); TLA+ contract (WireRule.tla: Intended commands, key legality, tokenised raw bytes) evaluated by TLC over recorded calls",
        design_ref="4 C02", note=TRUST + " Data blocks are compared through (length, sha256) descriptors; numbers as decimal text (TLC integers are 32-bit)."),
    "C03": dict(
        category="model_checking",
        text="(A) TLC checks the as-coded model of _readline/_readvalue/_readsegment/_recv (spec/Reader.tla, one action per loop iteration "
             "and per recv) against the whole-stream reference of spec/ReaderRule.tla for every stream over {CR, LF, 'E', 'x'} up to 5 (thorough 7) "
             "bytes, 12-18 read plans (lines, sized values, token segments with 2-6 byte tokens, fetch-shaped sequences with carry-over), "
             "every segmentation into recv() results and EINTR positions. (B) The real reader functions are run over the same streams x "
             "plans x every subset of cut positions (+EINTR) and each execution is validated by TLC against the reference (results and "
             "carried-over rest). (C) 44 public-call scenarios (values containing CR LF / END / VALUE lines or ending in CR, multi-key, cas, "
             "stats, every store/delete/incr/touch/version line, raw_command with three end tokens and near-miss payloads, the ElastiCache "
             "config reply through the real constructor, values of 4094..4098, 8190..8194 and 12288 bytes) under all cut subsets for short "
             "replies, all 1-/2-/sampled 3-cut and single-byte segmentations and 4096k+-{0,1,2} cuts for long ones: the result must equal the "
             "one-piece result.",
        technique="TLA+ model of the reader loops model-checked against a whole-stream reference; TLC trace validation of the real readers over all segmentations; differential public-call corpus",
        design_ref="4 C03", note=TRUST),
    "C04": dict(
        category="exploration",
        text="TLC enumerates the 86k-point scenario grid of spec/RoundTrip.tla (store op x fetch op x 13 value classes x 9 serializers x 5 key "
             "classes x 5 key-collection types) and checks on every point that the contract monitor spec/RoundTripRule.tla accepts the right fetch "
             "and rejects a miss / wrong value / wrong type / foreign key object. A seeded sample of the grid (quick 1/25, thorough 1/3) plus a "
             "deterministic edge sweep (values whose tail interacts with the CR LF terminator x every segmentation mode incl. splits right after "
             "every CR and right before every LF x every fetch op) is executed against the reference server, which stores the bytes it actually "
             "received; TLC validates every recorded store/fetch sequence: prefixed key on the wire (computed in TLA+), every present requested "
             "key exactly once under the caller's own key object, value equal and of the same exact type.",
        technique="TLA+ contract monitor + TLC-enumerated scenario grid; seeded concretisation; TLC trace validation",
        design_ref="4 C04",
        note=TRUST + " Universality over value content is sampled within exhaustively enumerated classes; value equality and type are observed facts the contract requires (encode/decode fidelity is outside what a specification decides)."),
    "C05": dict(
        category="model_checking",
        text="TLC explores the abstract cache (spec/Cache.tla over spec/CacheRule.tla: map with expiry classes and cas versions, the "
             "documented result of every API operation incl. noreply constants) exhaustively over all histories of length 2 of a "
             "175-operation alphabet and by -simulate for long histories, checking the cache's own invariants (a cas token from gets is "
             "accepted, versions unique, get_many agrees with get); every history, plus seeded random histories of length 40/60 whose cas "
             "tokens flow from earlier gets results, is replayed into the real Client against the reference server (str/bytes keys, prefix, "
             "default_noreply, noreply explicit or left to the documented default, reply segmentations) and every (call, result) sequence is "
             "validated step by step by TLC against the abstract cache (spec/CacheTrace.tla).",
        technique="TLA+ abstract-cache specification explored by TLC (exhaustive depth 2 + simulation); spec-to-code replay; TLC trace validation of every result",
        design_ref="4 C05", note=TRUST + " lib/refserver.py stands for a faithful memcached."),
    "C06": dict(
        category="model_checking",
        text="Configuration grid (TCP with 1..3 resolved addresses, UNIX, TLS, no_delay, keepalive, five timeout pairs incl. None) x "
             "every single-fault plan over {getaddrinfo, socket, setsockopt, wrap_socket, settimeout, connect, sendall, recv, close} "
             "plus creation failures for the first k resolved addresses, fresh and after a failure, followed by healthy calls, on four "
             "client stacks; TLC validates every recorded execution against ConnRule.tla: at most one open socket per server, failed or "
             "half-built sockets closed within the call and never reused, connect under connect_timeout and I/O under timeout, I/O only "
             "through the TLS wrapper, a later resolved address is used when an earlier one cannot get a socket, the next call after a "
             "failure works, everything closed after close().",
        technique="TLA+ contract monitor evaluated by TLC over recorded executions; exhaustive single-fault enumeration over a configuration grid",
        design_ref="4 C06", note=CONN_NOTE),
    "C07": dict(
        category="model_checking",
        text="All read operations (get, gets, get_many, gets_many, gat, gats) with ignore_exc on Client, PooledClient, HashClient and pooled "
             "HashClient x every single-fault plan of C01, server down, failing deserialiser, with non-None defaults by keyword; follow-up reads "
             "both inside and after HashClient's retry window; each result is classified against the result of the same call on an empty healthy "
             "server and TLC checks the C07 clauses of ConnRule.tla (never raises an ordinary exception; a failed read or a read that reached no "
             "server returns exactly the miss result; the client stays usable).",
        technique="TLA+ contract monitor evaluated by TLC over recorded executions; exhaustive single-fault enumeration",
        design_ref="4 C07", note=CONN_NOTE),
    "C08": dict(
        category="model_checking",
        text="(A) TLC explores ALL interleavings of the statement-level model of ObjectPool (spec/PoolThreads.tla: every statement of get / "
             "release / destroy / clear is one step, the lock taken and dropped where the code does; 2 threads x every pair of 1-2-operation "
             "programs over {ok, fail, quit-style destroy+release, clear}, 3 threads x 1 operation, max_size 1-2) against the contract monitor "
             "spec/PoolRule.tla with TLC's deadlock check on; the lock-free variant of the same model must be rejected (non-vacuity). (B) The REAL "
             "ObjectPool and PooledClient run under a deterministic scheduler (sys.monitoring LINE events -- thorough: INSTRUCTION events -- in "
             "pool.py, get_and_release and PooledClient's methods, the lock through lock_generator=, every fake-socket call): stateless DFS over all "
             "schedules within a preemption bound (quick 2 / thorough 3, quick with an execution budget per thread program) of the same thread "
             "programs; every distinct interleaved execution is validated by TLC against PoolRule (held by one thread, no duplicates, size <= "
             "max_pool_size, only the capacity error and only when full, never hand out / close twice a closed connection, no deadlock, at the end "
             "every connection idle in the pool or closed exactly once).",
        technique="TLA+ statement-level pool model model-checked over all interleavings; deterministic scheduling of the real code (sys.monitoring); TLC trace validation of every distinct interleaving",
        design_ref="4 C08", note=TRUST + " Preemption between bytecodes/lines and at lock and socket operations, not inside C calls (GIL)."),
    "C09": dict(
        category="model_checking",
        text="Every sequence (length 2 quick / 3 thorough) of PooledClient operations x per-operation fault choice x idle gaps below/at/above "
             "pool_idle_timeout x max_pool_size {1,2,unbounded} x ignore_exc, on PooledClient and pooled HashClient under a virtual clock; TLC "
             "validates every execution against the C09 clauses of ConnRule.tla: a socket that saw a failure is closed within the call and never "
             "used again, a healthy connection is reused and not discarded, an idle-expired one is closed and never reused, the number of "
             "checked-out connections is zero at every call boundary.",
        technique="TLA+ contract monitor evaluated by TLC over recorded executions; bounded-exhaustive operation/fault/gap sequences",
        design_ref="4 C09", note=CONN_NOTE + " Overlapping calls (two connections in the pool at once) are C08's subject."),
    "C10": dict(
        category="model_checking",
        text="Every socket call of every public operation as interruption point x {KeyboardInterrupt, SystemExit, a BaseException subclass "
             "standing for gevent.Timeout}, pool sizes 1 and 2, on four client stacks, followed by further calls; an interrupt in sendall "
             "surfaces after the bytes are out. TLC validates every execution against the reply-ownership / in-sync clauses of ConnRule.tla and "
             "the pool-slot clause (checked-out count back to zero at every call boundary).",
        technique="TLA+ contract monitor evaluated by TLC over recorded executions; exhaustive interruption-point enumeration",
        design_ref="4 C10", note=CONN_NOTE + " Interrupts are raised inside socket-module calls only."),
    "C11": dict(
        category="model_checking",
        text="TLC explores the as-coded model of RendezvousHash (spec/Rendezvous.tla: node LIST, add/remove, the fold with its > / == / "
             "max(str) branches) for every score assignment in 0..2 over 4 nodes (2-, 3- and 4-way ties) and every add/remove history up to 5 "
             "(thorough 6) steps, against the contract monitor spec/RendezvousRule.tla (winner = highest score, ties to the greatest name; same "
             "set => same placement; removal / addition move only the affected keys) and the direct lemma Fold(list) = Place(set); every exported "
             "(score table, history) is replayed into the real class through hash_function=. With real murmur3 scores: node sets up to 8, every "
             "permutation up to 5 (6) nodes, random add/remove histories, keys up to 250 bytes, two more interpreters with other PYTHONHASHSEEDs, "
             "equivalent server spellings through HashClient, spread over corpora (short and 250-byte keys) -- every placement query is validated by TLC.",
        technique="TLA+ model of the placement fold model-checked against the set-based rule (all score tables with forced ties); spec-to-code replay; TLC trace validation of real placements",
        design_ref="4 C11", note=TRUST + " Keys are str; the hash function itself is C14's subject."),
    "C12": dict(
        category="model_checking",
        text="TLC explores the as-coded routing model spec/HashRoute.tla (every placement function of 4 routing keys onto 2 (thorough 3) servers, "
             "every sequence of set / set_many / get / get_many / delete over plain keys and (server_key, key) pairs incl. two pairs sharing a key "
             "name) against the contract monitor spec/RouteRule.tla and exports every behaviour; each is replayed into the real HashClient over a "
             "multi-server fake socket module with placement forced through the hasher= seam. With the real RendezvousHash: 1..5 servers (TCP and "
             "UNIX), key sets of 0..50 keys (str, bytes, pairs), prefixes, pooling on/off, every key-addressed operation, and a server-set growth "
             "in mid-trace. TLC validates per-server command logs against the placement of every routing key (asked of the hasher by the harness): "
             "each key sent exactly once to its server and nowhere else, single- and multi-key operations agree, what was written is found.",
        technique="TLA+ routing model model-checked against the contract monitor; spec-to-code replay with forced placement; TLC trace validation of per-server logs",
        design_ref="4 C12", note=TRUST + " Placement itself is C11's subject; failover is C13's."),
    "C13": dict(
        category="model_checking",
        text="TLC explores the as-coded failover model spec/HashFailover.tla (the timed per-server state machine spread over _get_client/_retry_dead, "
             "_safely_run_func, _mark_failed_server, remove_server; saturating ages make it finite) against the contract monitor "
             "spec/FailoverRule.tla -- at most two consecutive-failure contacts per retry_timeout window and retry_attempts+2 per dead_timeout "
             "window, no eviction by a single failure when retries are configured, only a failing server is taken out, every contact goes to the "
             "placement of the rotation, no server that did not fail is bypassed, recovery within two dead_timeouts of traffic, only the failing "
             "server's own error or 'all servers down' escapes, nothing escapes with ignore_exc -- for every history of calls, ticks and health "
             "changes (OSError-class / MemcacheError-class): quick to depth 12 for retry_attempts 0/1/2 x ignore_exc x two timeout pairs; thorough "
             "the complete reachable state space (3.9M states for RA=1). Exported behaviours are replayed into the real HashClient (scripted "
             "client_class keyed by address, hasher= seam, virtual clock, six operations rotating) and, with seeded random histories of length "
             "60..120 over 2-3 servers and six timeout pairs, validated by TLC against the contract.",
        technique="TLA+ timed failover model model-checked against the contract monitor; spec-to-code replay; TLC trace validation",
        design_ref="4 C13", note=TRUST + " 'Failing' = OSError; unit ticks; broadcast operations excluded."),
    "C14": dict(
        category="model_checking",
        text="spec/Murmur3.tla is MurmurHash3_x86_32 written in TLA+ over <<hi16, lo16>> words (8x16-bit partial products), pinned by 22 published "
             "test vectors evaluated by TLC as ASSUMEs. pymemcache's murmur3_32 is evaluated on every string over {00,7F,80,FF} up to length 5 (6) "
             "and over six symbols up to length 3 (4), every length 0..64 x 20 (120) random contents, long inputs across the 256-byte mark up to "
             "4096 bytes, seeds {0, 1, 2^31, 2^32-1, random}; TLC recomputes every (input, seed, result) triple; strings above U+00FF are checked "
             "for range and all vectors for equality in a second interpreter with a random PYTHONHASHSEED.",
        technique="TLA+ transcription of the reference algorithm; TLC as independent evaluator of every recorded vector (trace validation)",
        design_ref="4 C14", note=TRUST + " A transcribed pure function: TLC is an evaluator here, not an explorer; states = vectors evaluated."),
    "C15": dict(
        category="exploration",
        text="TLC enumerates the 38k-point grid of spec/Serde.tla (22 value classes x size relative to the compression threshold x "
             "compressibility x pickle protocol 0..5 x min_compress_len {0,1,10,400} x codec {zlib,bz2,lzma,identity} x plain/compressed) and checks "
             "the decision model of serde.py (flag algebra, threshold, keep-smaller rule) against the contract monitor spec/SerdeRule.tla. A seeded "
             "random sample of grid points (quick 1/6, thorough all) is concretised with random values of each class (ints with thousands of "
             "digits, incompressible bytes, sets/frozensets/complex/bytearray/range, subclasses of int/str/bytes/dict, custom objects, nested "
             "containers) through PickleSerde, CompressedSerde and LegacyWrappingSerde; TLC validates every observation: no exception, transmittable "
             "form, flags < 2^16, equal value of exactly the same type, COMPRESSED flag exactly when the compressed form is stored, never larger than "
             "the uncompressed form.",
        technique="TLA+ decision model + contract monitor; TLC-enumerated grid; seeded concretisation; TLC trace validation",
        design_ref="4 C15",
        note=TRUST + " Pickle itself is outside any TLA+ model: equality and exact type are observed facts the contract requires."),
    "C16": dict(
        category="model_checking",
        text="The abstract-cache histories exported by TLC from spec/Cache.tla (every server state: hit, miss, cas mismatch, non-numeric, expired) "
             "plus calls exercising the options (str/int values under both encodings, a Unicode key with unicode keys on/off, explicit flags, "
             "keyword expire/defaults) are executed on a plain Client and, identically configured, on PooledClient, single-server HashClient (pooled "
             "and not) and RetryingClient (attempts 1 and 2) over the grid key_prefix x default_noreply x encoding x allow_unicode_keys x serializer x "
             "three timeout pairs. TLC decides each call with spec/WrapRule.tla: same parsed command stream at the reference server, same result or "
             "same kind of error, same I/O timeout, same connect timeout and socket options; every wrapper execution is also validated against the "
             "abstract cache (spec/CacheTrace.tla).",
        technique="TLA+ contract monitors (WrapRule, CacheRule) evaluated by TLC over paired executions; histories generated by TLC from Cache.tla",
        design_ref="4 C16", note=TRUST + " Arguments by keyword where signatures differ; RetryingClient may repeat a failing call (C17)."),
    "C17": dict(
        category="model_checking",
        text="TLC explores the as-coded model of RetryingClient.__init__/_retry (spec/Retrying.tla) against the contract "
             "monitor (spec/RetryRule.tla) for every configuration (attempts 0..3 quick / 0..5 thorough, every "
             "retry_for / do_not_retry_for subset of a 4-class hierarchy plus a non-exception class) and every outcome "
             "sequence, exports every complete behaviour, replays each into the real class, and validates every recorded "
             "execution against the contract in TLC (spec/RetryingTrace.tla). Exhaustive within the bound, which is the "
             "whole decision table of the property.",
        technique="TLA+ model + TLC exhaustive exploration; spec-to-code replay of every behaviour; TLC trace validation of every execution",
        design_ref="4 C17",
        note=TRUST),
    "C18": dict(
        category="model_checking",
        text="TLC enumerates every number of caches (1..4), every hit/miss assignment and every FallbackClient operation on the "
             "as-coded model (spec/Fallback.tla), checks it against the contract monitor (spec/FallbackRule.tla: order of "
             "consultation, stop at first answer, writes only to the primary with the caller's arguments), exports every "
             "behaviour, replays each into the real class over scripted caches with argument-spelling and hit-value variants "
             "(falsy hits, None/empty misses), and validates every recorded execution against the contract in TLC. Exhaustive "
             "for the stated universe, which is the property's whole quantifier.",
        technique="TLA+ model + TLC exhaustive exploration; spec-to-code replay; TLC trace validation",
        design_ref="4 C18",
        note=TRUST),
    "C19": dict(
        category="model_checking",
        text="TLC explores the as-coded model spec/AwsDiscovery.tla (reconfigure_nodes as fixed, interleaved with traffic, failover evictions, "
             "revivals and ERROR replies, over every non-empty ordered node list of a 3- (thorough 4-) node universe) against the contract "
             "monitor spec/DiscoveryRule.tla and exports every behaviour; each is replayed into the real AWSElastiCacheHashClient over a "
             "multi-server fake socket module whose endpoint serves 'config get cluster' through the real socket reader under seven "
             "segmentations (one piece, single bytes, cut inside / before the 7-byte end token, after every CR, before every LF), followed by a "
             "key corpus routed with real commands; plus random scale-up/scale-down/replace sequences over 1..6 nodes, use_vpc on/off, ERROR "
             "replies (connection closed, kept open, inside a terminated reply). TLC validates: rotation = advertised list (IP or host name, "
             "advertised ports), every key goes to an advertised node, connections to replaced nodes are closed, ERROR surfaces as a memcached error.",
        technique="TLA+ reconfiguration model model-checked against the contract monitor; spec-to-code replay; TLC trace validation",
        design_ref="4 C19", note=TRUST + " use_pooling=True is outside the property's configurations (the constructor raises TypeError with it: observation in DESIGN.md)."),
    "C20": dict(
        category="model_checking",
        text="TLC enumerates every key of length 1..2 (thorough 3) over byte / code-point class representatives x prefix classes x "
             "allow_unicode_keys, evaluates spec/KeyRule.tla (own UTF-8, 250-byte limit on the prefixed form, forbidden bytes) and checks "
             "that the rule is exactly what a server-grade tokenizer needs; the verdict table is concretised with every member of every "
             "class (all 65,792 byte keys of length 1-2 exhaustively), boundary lengths 247..253 for ASCII / 2- / 3- / 4-byte UTF-8 keys "
             "with prefixes, every byte at positions of 8- and 250-byte keys, through check_key_helper, Client.check_key, "
             "PooledClient.check_key, HashClient (plain and ignore_exc) and a Client data call; every concrete record (key, verdict, bytes "
             "transmitted) is validated byte-for-byte by TLC against KeyRule in both directions (legal => accepted and transmitted as "
             "prefix+encoding; illegal => MemcacheIllegalInputError).",
        technique="TLA+ key rule model-checked over class strings; TLC trace validation of ~170k concrete validation records",
        design_ref="4 C20", note=TRUST + " str keys are well-formed Unicode; prefixed form non-empty."),
}

NOT_YET = "check not built yet in this round (planned in DESIGN.md section 4); no claim made"
ALL = ["C%02d" % i for i in range(1, 21)]


# what was added after the first round (appended to the level text of each check)
ADDED = {
    "C01": " Also: the same programs with ignore_exc for the read operations; flush_all with a delay; the repository's own 106 integration "
           "tests, run against the reference server through the fake socket module (lib/itplugin), every public call with its socket "
           "activity validated by TLC against ConnRule. Keys with a line break inside (no blank) must leave nothing to read; a call that returns has asked the server itself (the same keyless / read operation repeated on one connection). incr / decr with noreply=None, graceful shutdown, raw_command with an end token of its own (socket-level faults).",
    "C02": " spec/Proto.tla gives the request grammar (Render) and a strict tokenizer (Tokenize) in TLA+; TLC checks RoundTrip, Concatenation, "
           "Prefix and the Injection lemma over a small byte alphabet (spec/ProtoMC.tla) and WireRule judges the raw bytes each call wrote "
           "with that tokenizer (the Python parser is cross-checked against it). Also covered: stats arguments and operations without keys "
           "(stats, cache_memlimit, version, quit, shutdown), the same text as stats argument / memory limit and as key on one client, "
           "batches of 70-300 keys with the illegal key late, and what the repository's integration tests wrote (spec/SentRule.tla). Buffer objects (bytearray, memoryview, array) as values: the payload is left open, well-formedness is required.",
    "C03": " The outcome of a public call includes the number of reply bytes it left unread.",
    "C04": " The grid now has 7 collection kinds (a key named more than once in list / iterator form: 120k points); values include subclasses "
           "of str/int and mixed-type set_many batches. Values of 64 KiB and more ending on a piece boundary.",
    "C05": " Histories are replayed on Client, PooledClient and a one-server HashClient; multi-key fetches may name a key twice; "
           "spec/ClientOps.tla models every method at wire level (commands, a faithful server, reply interpretation) and Cache.tla checks in "
           "every reachable state that client + server refine the abstract cache (WireRefinesAbstract) -- and, started in each of the 7.5k "
           "well-formed states of a bounded shape (SpecAll), in every state whether reachable within the depth or not: agreement on all "
           "(state, operation) pairs is agreement on histories of any length. The wire-level table is also bound to the code: the commands each replayed call sent are compared by TLC with ClientOps.Cmds (spec/CacheWireTrace.tla; a difference with equal results is model drift). Item-style access (c[k], c[k] = v, del c[k]) as spellings of get/set/delete; a three-server HashClient (one UNIX-socket server) with multi-key calls whose keys interleave over the servers.",
    "C06": " Also: HashClient stacks that give up on their server while it comes back (socket bookkeeping clauses only); the repository's "
           "integration tests as a trace source (see C01). The server's name re-pointed to another address before / after a failure: the next call resolves again and works (a connect to the stale address is the client's fault, not the environment's). Zero timeouts (non-blocking, not 'no timeout'). Replies cut right after / one byte into every line (end of stream inside a data block). The fake kernel refuses to connect a socket of one address family to an address resolved for another (the later resolved address must be the one used).",
    "C07": " Also: a VALUE header with one column too many for the command sent; stored items the library's own serializers cannot decode (empty / junk payload marked compressed, non-numeric integers, text that is not UTF-8) under CompressedSerde and pickle_serde.",
    "C08": " What escapes a pooled call (capacity error or the call's own error, never an error raised inside pool.py), calls rejected "
           "before any exchange next to ordinary calls (two preemptions), and 'a connection is given back only by its holder'. "
           "spec/PoolInd.tla states the same statement-level steps for threads that go on forever and Apalache checks that its invariant is "
           "inductive (Init => IndInv; IndInv and Next => IndInv'): the safety clauses hold in executions of any length (3 threads; thorough "
           "also 4); TLC checks the same shape facts (IndShape) on the bounded model. Two-preemption plans around quit() (its connection is handed back on two paths).",
    "C09": " Also: every public operation x every single-fault plan on the pooled stacks, misc operations in the sequences, calls that fail "
           "without a connection fault (illegal key, dict-style read of an absent key), and 'nothing idle-expired stays pooled after a checkout'. spec/PoolSeq.tla is the as-coded sequential pool with its idle clock "
           "(carrying the PoolRule monitor): TLC explores every sequence to depth 7 (thorough 9), and every exported behaviour is replayed on "
           "the real ObjectPool, whose trace must be the predicted one (the LIFO variant of the model must fail). Contract clause 'a pooled connection on which a call failed is closed' (a reply the client cannot use fails the call after the exchange is over: the pool must not take the connection back).",
    "C10": " Interruption points now include: the request half sent, the error-path close() before / after the descriptor is closed, the "
           "close of an idle-expired pooled connection, the pool's clean-up of a call rejected before any exchange.",
    "C11": " Also: redundant add_node in the model and the histories, constructor-provided node lists, node names of several shapes, "
           "refused add_server / remove_server leave the rotation as it was. Apalache (symbolic) checks the placement lemmas and the as-coded "
           "fold for ALL natural-number score tables over 4 (thorough 5) nodes, every rotation and node order (spec/PlacementApa.tla). spec/ServerSpec.tla transcribes normalize_server_spec and the grammar of well-formed "
           "address spellings: TLC checks they agree on every string up to length 4 (thorough 6) over the address alphabet, and the real function "
           "is run on every one of them (TLC judges the results; the as-coded prediction must match). Seeds other than 0 and copy / deepcopy of a hasher; upper-case letters in equivalent server spellings. bytes keys and compatibility characters in the placement keys (the score is murmur3 of the text '<node>-<key>' as Python formats it). (routing key, key) pairs through HashClient: placed by the routing key alone (routing keys of length 0, 1, 2 and longer; any key part).",
    "C12": " Multi-key answers have the shape of the per-key operation (gets_many through a pooled HashClient). The str and the bytes spelling of one key on one client: each goes where placement puts that spelling, whatever was used before (the known finding about the two spellings living apart is matched by its clauses only).",
    "C13": " Also: connection-level errors that are no ConnectionError, server-answered errors that must not count as failures, per-server "
           "clients that honour ignore_exc, 'a server that answered is not sent the same request again in that call', and the result of "
           "multi-key reads under partial failure (written to by the harness afterwards: results are the caller's). 405 deterministic histories around the instants of eviction and revival; a quarter of them (and a fifth of the random ones) run the REAL Client on the fake network behind HashClient (servers that refuse, hang, or answer SERVER_ERROR; failing = what the environment says), a quarter use UNIX-socket servers, a quarter one single operation throughout; batches of one key.",
    "C15": " After the caller changed the object it got, deserialising the same stored form again must still return the stored value. Values after a refused one on the same serde object; text beginning with U+FEFF and other signature characters; small / negative ints. Floats that need 17 significant digits.",
    "C16": " Also: keys named twice, dict-style access, construction with unusual spellings of the shared options (str / non-ASCII prefixes). Every combination of connect_timeout / timeout given, None or left out (what the first exchange connects and talks under); a falsy serde object. Two more stacks: a HashClient (pooled or not) whose server failed once before every call and is retried by it after retry_timeout -- the 'retrying failed server' code path sends and returns what a plain Client does. An explicit flags=0 on every storage command under a serializer with flags of its own.",
    "C17": " The wrapped client is a subclass instance with the mapping protocol; rc[k] (hit and miss), rc[k] = v and del rc[k] go through the same contract. Half of the item-style executions wrap a client without the mapping protocol.",
    "C18": " Half of the executions use plain argument values (negative / zero / large expiry, True/False/None, ...) compared by type and value; "
           "a miss returns nothing (the harness writes into every result it gets).",
    "C19": " The environment really fails nodes (open connection reset + refused): 'fault' events; blank IP fields without VPC addressing; "
           "no node is left with two open connections. The bookkeeping invariant of the client (rotation within clients, nothing twice, dead servers out of "
           "the rotation) is checked to be inductive by TLC started in EVERY state that satisfies it (SpecAny), and from every such state a "
           "reconfiguration establishes the contract: C19 for histories of any length. One execution in four with a TLS context (the address kind use_vpc selects does not depend on it).",
    "C20": " Validation is also exercised through operations: get / get_many / set / delete on the three classes, with ignore_exc, with an "
           "unreachable server, with an empty rotation, and after the same text was validated as a stats argument. Every key-addressed operation (gets, gat, gats, touch, gets_many, set, add, append, cas, set_many, delete_many, incr) on Client, PooledClient, HashClient with and without ignore_exc: the key bytes of the command that went out. Multi-key probes pass one-shot iterators.",
}


def main():
    checks = []
    for pid in ALL:
        if pid not in CHECKS:
            continue
        c = CHECKS[pid]
        checks.append({
            "property_id": pid,
            "quick_cmd": f"./check {pid} --tier quick",
            "thorough_cmd": f"./check {pid} --tier thorough",
            "evidence_file": f"/verif/evidence/{pid}.json",
            "replay_cmd_template": f"./check {pid} --replay {{path}}",
            "engine": "tlc",
            "level_claimed": {"category": c["category"], "text": c["text"] + ADDED.get(pid, ""), "design_ref": c["design_ref"]},
            "level_note": c["note"],
            "technique": c["technique"],
        })
    man = {
        "version": 1,
        "setup_cmd": "./setup.sh",
        "hooks": {
            "guard": "PYMEMCACHE_VERIF",
            "enable": "no source hooks: the checks observe pymemcache only through its own substitution points "
                      "(socket_module, client_class, lock_generator, hasher, serde, time/sleep replaced before import, sys.monitoring)",
            "baseline_off_cmd": "cd /repo && /venv/bin/python -m pytest -ra -q -p no:cacheprovider --timeout=900 --continue-on-collection-errors",
            "source_commits": [],
            "add_only": True,
        },
        "engines": [
            {"name": "tlc", "path": "/verif/check", "serves_properties": sorted(CHECKS),
             "kind_free_text": "explicit TLA+ specifications (spec/*.tla) model-checked with TLC; behaviours exported from TLC "
                               "are replayed into the real code; executions recorded from the real code are validated by TLC "
                               "against contract monitors (spec/TraceRun.tla idiom)"},
        ],
        "checks": checks,
        "notes": "See DESIGN.md. Every verdict comes from a TLA+ contract monitor evaluated by TLC on executions of the real code; "
                 "differences from the as-coded model that the contract accepts are reported as MODEL-DRIFT, not as violations.",
        "not_applicable": [{"property_id": p, "reason": NA.get(p, NOT_YET)} for p in ALL if p not in CHECKS],
    }
    with open(os.path.join(HERE, "MANIFEST.json"), "w") as f:
        json.dump(man, f, indent=1)
        f.write("\n")


NA = {}

if __name__ == "__main__":
    main()
