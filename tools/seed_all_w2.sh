#!/bin/sh
# evaluates the second wave of seeded changes (/tmp/wt2/<ID>/out/m1..m3) -> seeded/<ID>-w2m<k>/
cd /verif
for P in C01 C02 C03 C04 C05 C06 C07 C08 C09 C10 C11 C12 C13 C14 C15 C16 C17 C18 C19 C20; do
  for M in m1 m2 m3; do
    [ -f /tmp/wt2/$P/out/$M/patch.diff ] || continue
    extra=""
    case $P-$M in C11-m2) extra="C13";; C11-m3) extra="C19";; C09-m1|C08-m2) extra="C10";; C06-m2) extra="C08";; C19-m1) extra="C03";; C05-m3) extra="C16";; C20-m3) extra="C16 C02";; esac
    WT_BASE=/tmp/wt2 MUT_PREFIX=w2 tools/seed_eval.sh $P $M $P $extra 2>&1 | cut -c1-330
  done
done
