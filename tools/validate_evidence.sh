#!/bin/sh
# validates MANIFEST.json and every evidence file against the schemas
python3-vt - <<'PY'
import json, jsonschema, glob, sys
m=json.load(open('/verif/MANIFEST.json')); jsonschema.validate(m, json.load(open('/root/.vp/MANIFEST.schema.json')))
s=json.load(open('/root/.vp/EVIDENCE.schema.json'))
bad=0
for c in m['checks']:
    f=c['evidence_file']
    try:
        e=json.load(open(f)); jsonschema.validate(e,s)
        assert e['level']==c['level_claimed']['category'], (e['level'], c['level_claimed']['category'])
        print("ok", f, e['tier'], e['wall_s'])
    except Exception as ex:
        bad=1; print("BAD", f, str(ex)[:300])
sys.exit(bad)
PY
