#!/bin/sh
# tools/thorough_all.sh [ids...] -- runs the thorough tier of the given (default: all) checks, one after the other
cd "$(dirname "$0")/.."
IDS="${*:-$(python3 -c "import json; print(' '.join(x['property_id'] for x in json.load(open('MANIFEST.json'))['checks']))")}"
for c in $IDS; do
  s=$(date +%s)
  out=$(timeout 5400 ./check $c --tier thorough 2>&1); rc=$?
  e=$(date +%s)
  echo "$c thorough rc=$rc $((e-s))s :: $(echo "$out" | tail -1 | cut -c1-300) $(echo "$out" | grep 'signature\|MACHINERY' | head -3 | tr '\n' ' ' | cut -c1-300)"
done
