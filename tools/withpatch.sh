#!/bin/sh
# tools/withpatch.sh <patch.diff|-e 'sed-expr' file> -- <command...>
# Runs a command against a scratch copy of /repo with a change applied (VERIF_REPO points at it).
# The copy lives outside /repo and /verif and is removed afterwards.
set -e
D=$(mktemp -d /tmp/mutrepo-XXXXXX)
trap 'rm -rf "$D" "$D.evidence" "$D.replays"' EXIT
rsync -a --exclude .git --exclude __pycache__ --exclude '*.egg-info' /repo/ "$D/"
if [ "$1" = "-e" ]; then
  sed -i "$2" "$D/$3"; shift 3
  if diff -q "$D/$1" /dev/null >/dev/null 2>&1; then :; fi
else
  P=$(readlink -f "$1"); (cd "$D" && patch -p1 -s < "$P"); shift 1
fi
[ "$1" = "--" ] && shift
(cd /repo && git diff --no-index --stat . "$D" 2>/dev/null | tail -1) || true
VERIF_EVIDENCE_DIR=$D.evidence VERIF_REPLAY_DIR=$D.replays VERIF_REPO="$D" "$@"
