#!/bin/bash
# tools/seed_robust.sh [jobs] [seeds...] -- detection must not hinge on the seed: every seeded change is run again through
# the check that caught it (its own property's if that one did) with other VERIF_SEED values; prints the ones a seed misses.
cd /verif
J=${1:-4}; shift
SEEDS="${*:-1 2}"
one() {
  d=$1
  read P C <<<$(python3 - "$d" <<'PY'
import json,sys
m=json.load(open(sys.argv[1]+'/meta.json'))
own=[c for c in m['checks_run'] if c['check']==m['property'] and c['rc']==1]
oth=[c for c in m['checks_run'] if c['rc']==1]
print(m['property'], (own or oth or [{'check':'-'}])[0]['check'])
PY
)
  [ "$C" = "-" ] && { echo "NEVER-CAUGHT $(basename $d)"; return; }
  for s in $SEEDS; do
    out=$(VERIF_SEED=$s tools/withpatch.sh $d/patch.diff -- ./check $C 2>&1)
    if echo "$out" | grep -q "^VIOLATION"; then echo "ok $(basename $d) $C seed=$s";
    elif echo "$out" | grep -q "MACHINERY"; then echo "ERROR $(basename $d) $C seed=$s $(echo "$out" | grep MACHINERY | head -1 | cut -c1-120)";
    else echo "SEED-MISS $(basename $d) $C seed=$s"; fi
  done
}
for d in seeded/*/; do
  ( one ${d%/} ) &
  while [ "$(jobs -rp | wc -l)" -ge "$J" ]; do sleep 3; done
done
wait
