#!/usr/bin/env python3
"""prints the per-property numbers table of DESIGN.md section 8.2 from evidence/*.json (run after the quick checks)"""
import json, glob, os
rows = []
for f in sorted(glob.glob(os.path.join(os.path.dirname(__file__), "..", "evidence", "C*.json"))):
    d = json.load(open(f))
    c = d.get("coverage", {})
    rows.append((d.get("property_id", os.path.basename(f)[:3]), c.get("states", ""), c.get("transitions", ""),
                 c.get("traces_validated_against_impl", ""), c.get("trace_states", ""), c.get("evaluations", ""),
                 c.get("distinct_nontrivial", ""), c.get("model_drift", ""), d.get("wall_s", c.get("wall_s", ""))))
print("| id | TLC states (models) | transitions | executions of the real code validated by TLC | trace states | evaluations | distinct non-trivial | model drift | wall (s) |")
print("|---|---|---|---|---|---|---|---|---|")
for r in rows:
    print("| " + " | ".join(str(x) for x in r) + " |")
