#!/bin/sh
# tools/seed_sweep.sh [seeds...]  -- every quick check under several seeds; prints one line per (check, seed)
cd "$(dirname "$0")/.."
SEEDS="${*:-1 2 3 4 5 6 7}"
for s in $SEEDS; do
  for c in $(python3 -c "import json; print(' '.join(x['property_id'] for x in json.load(open('MANIFEST.json'))['checks']))"); do
    out=$(VERIF_SEED=$s timeout 900 ./check $c --tier quick 2>&1); rc=$?
    echo "seed=$s $c rc=$rc $(echo "$out" | grep -c '^VIOLATION') violations; $(echo "$out" | grep 'signature' | head -2 | tr '\n' ' ' | cut -c1-200) $(echo "$out" | grep 'MACHINERY' | head -1 | cut -c1-200)"
  done
done
