#!/bin/sh
# tools/run_mutants.sh [CHECK-ID]  -- runs every mutant of mutants/MAP (optionally only those mapped to CHECK-ID)
# against a scratch copy of /repo and reports which checks catch it.
cd /verif
grep -v '^#' mutants/MAP | while read f checks; do
  for c in $checks; do
    [ -n "$1" ] && [ "$1" != "$c" ] && continue
    [ -f drivers/$(echo $c | tr A-Z a-z).py ] || { echo "SKIP $f $c (no driver yet)"; continue; }
    out=$(tools/withpatch.sh mutants/$f -- ./check $c 2>&1); 
    if echo "$out" | grep -q "^VIOLATION"; then echo "CAUGHT $f by $c: $(echo "$out" | grep signature | head -2 | tr '\n' ' ')"; 
    elif echo "$out" | grep -q "MACHINERY\|cannot open\|FAILED\|rejects"; then echo "ERROR  $f $c: $(echo "$out" | grep MACHINERY | head -1)";
    else echo "MISSED $f by $c"; fi
  done
done
