#!/bin/bash
# tools/seed_all_par.sh [jobs] -- re-evaluates all waves of seeded changes (ONLY_W7=1 ... ONLY_W3=1: newest waves only), several properties at a time
# (each property has its own scratch worktree, so different properties do not interfere)
cd /verif
J=${1:-4}
one() {
  P=$1
  for M in m1 m2; do
    [ -n "$ONLY_W3$ONLY_W4$ONLY_W5$ONLY_W6$ONLY_W7$ONLY_W8" ] && continue
    [ -f /tmp/wt/$P/out/$M/patch.diff ] || continue
    extra=$(python3 -c "
import json,sys
try:
    m=json.load(open('/verif/seeded/$P-$M/meta.json')); print(' '.join(c['check'] for c in m['checks_run'] if c['check']!='$P'))
except Exception: pass")
    tools/seed_eval.sh $P $M $P $extra 2>&1 | cut -c1-330
  done
  for M in m1 m2 m3; do
    [ -f /tmp/wt8/$P/out/$M/patch.diff ] || continue
    WT_BASE=/tmp/wt8 MUT_PREFIX=w8 tools/seed_eval.sh $P $M $P $(cat /tmp/wt8/$P/out/$M/extra 2>/dev/null) 2>&1 | cut -c1-330
  done
  [ -n "$ONLY_W8" ] && return
  for M in m1 m2 m3; do
    [ -f /tmp/wt7/$P/out/$M/patch.diff ] || continue
    WT_BASE=/tmp/wt7 MUT_PREFIX=w7 tools/seed_eval.sh $P $M $P $(cat /tmp/wt7/$P/out/$M/extra 2>/dev/null) 2>&1 | cut -c1-330
  done
  [ -n "$ONLY_W7" ] && return
  for M in m1 m2 m3; do
    [ -f /tmp/wt6/$P/out/$M/patch.diff ] || continue
    WT_BASE=/tmp/wt6 MUT_PREFIX=w6 tools/seed_eval.sh $P $M $P $(cat /tmp/wt6/$P/out/$M/extra 2>/dev/null) 2>&1 | cut -c1-330
  done
  [ -n "$ONLY_W6" ] && return
  for M in m1 m2 m3; do
    [ -f /tmp/wt5/$P/out/$M/patch.diff ] || continue
    WT_BASE=/tmp/wt5 MUT_PREFIX=w5 tools/seed_eval.sh $P $M $P $(cat /tmp/wt5/$P/out/$M/extra 2>/dev/null) 2>&1 | cut -c1-330
  done
  [ -n "$ONLY_W5" ] && return
  for M in m1 m2 m3; do
    [ -f /tmp/wt4/$P/out/$M/patch.diff ] || continue
    WT_BASE=/tmp/wt4 MUT_PREFIX=w4 tools/seed_eval.sh $P $M $P $(cat /tmp/wt4/$P/out/$M/extra 2>/dev/null) 2>&1 | cut -c1-330
  done
  [ -n "$ONLY_W4" ] && return
  for M in m1 m2 m3; do
    [ -f /tmp/wt3/$P/out/$M/patch.diff ] || continue
    WT_BASE=/tmp/wt3 MUT_PREFIX=w3 tools/seed_eval.sh $P $M $P $(cat /tmp/wt3/$P/out/$M/extra 2>/dev/null) 2>&1 | cut -c1-330
  done
  [ -n "$ONLY_W3" ] && return
  for M in m1 m2 m3; do
    [ -f /tmp/wt2/$P/out/$M/patch.diff ] || continue
    extra=""
    case $P-$M in C11-m2) extra="C13";; C11-m3) extra="C19";; C09-m1|C08-m2) extra="C10";; C06-m2) extra="C08";; C19-m1) extra="C03";; C05-m3) extra="C16";; C20-m3) extra="C16 C02";; C04-m1) extra="C07";; esac
    WT_BASE=/tmp/wt2 MUT_PREFIX=w2 tools/seed_eval.sh $P $M $P $extra 2>&1 | cut -c1-330
  done
}
for P in C01 C02 C03 C04 C05 C06 C07 C08 C09 C10 C11 C12 C13 C14 C15 C16 C17 C18 C19 C20; do
  ( one $P > /tmp/seedpar_$P.log 2>&1 ) &
  while [ "$(jobs -rp | wc -l)" -ge "$J" ]; do sleep 5; done
done
wait
cat /tmp/seedpar_C*.log
