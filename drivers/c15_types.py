"""importable value types for the C15 round trips (pickle needs module-level classes)"""


class IntSub(int):
    pass


class StrSub(str):
    pass


class BytesSub(bytes):
    pass


class DictSub(dict):
    pass


class Obj:
    def __init__(self, a, b):
        self.a, self.b = a, b

    def __eq__(self, other):
        return type(other) is Obj and (self.a, self.b) == (other.a, other.b)

    def __hash__(self):
        return hash((type(self), self.a))
