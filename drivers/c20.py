"""C20 -- key validation accepts exactly the documented legal keys.

TLC enumerates every key of length 1..2 (thorough: 3) over byte / code-point class representatives x
prefix classes x allow_unicode_keys and prints the verdict table of spec/KeyRule.tla (checking on the
way that the rule is exactly what a server-grade tokenizer needs).  The harness concretises every
class with every member (all 65,792 byte keys of length 1-2), adds boundary lengths 248..252 for
ASCII / 2- / 3- / 4-byte UTF-8 keys with prefixes 0..250, every byte at every position of keys of
length 8 and 250, runs them through check_key_helper, Client.check_key, PooledClient.check_key and a
HashClient call, and TLC validates every concrete record byte-for-byte against KeyRule (its own
UTF-8)."""
import itertools

from lib import common, fakesock, tlc, vclock

PROP = "C20"

BYTE_CLASS = {97: [b for b in range(33, 127)], 32: [32], 9: [9], 13: [13], 10: [10], 11: [11], 12: [12], 0: [0],
              1: [b for b in range(1, 32) if b not in (9, 10, 11, 12, 13)], 127: [127],
              128: list(range(128, 192)), 255: list(range(192, 256))}
CP_CLASS = {97: [65, 97, 122, 48, 45, 95, 126, 33], 32: [32], 9: [9], 13: [13], 10: [10], 11: [11], 12: [12], 0: [0],
            1: [1, 8, 14, 27, 28, 29, 30, 31], 127: [127], 133: [133, 128, 159], 160: [160], 233: [233, 161, 255],
            8232: [8232, 8233, 8192, 8202, 8239, 8287, 5760], 8364: [8364, 2048, 65533, 0x4E2D], 12288: [12288],
            128512: [128512, 65536, 0x10FFFF]}


class Accepted(Exception):
    """the key passed validation but there was nothing to transmit it to (no server in rotation)"""


def observe(fn, key, unicode, prefix):
    from pymemcache.exceptions import MemcacheIllegalInputError
    try:
        out = fn(key)
    except MemcacheIllegalInputError:
        return "illegal", []
    except Accepted:
        return "accepted", []
    except Exception as e:   # noqa
        return "other:" + type(e).__name__, []
    if not isinstance(out, bytes):
        return "other:returned-" + type(out).__name__, []
    return "ok", list(out)


OPS_VIA = ["gets", "gat", "gats", "touch", "gets_many", "set", "add", "append", "cas", "set_many", "delete_many", "incr"]


def make_vias(unicode, prefix):
    """the four ways a key is validated; each returns the validated / transmitted key bytes"""
    from pymemcache.client.base import Client, PooledClient, check_key_helper
    from pymemcache.client.hash import HashClient
    pb = bytes(prefix)
    net = fakesock.FakeNet()
    net.add_server(("mc1", 11211))
    cl = Client(("mc1", 11211), socket_module=net, allow_unicode_keys=unicode, key_prefix=pb)
    pc = PooledClient(("mc1", 11211), socket_module=net, allow_unicode_keys=unicode, key_prefix=pb)
    hc = HashClient([("mc1", 11211)], socket_module=net, allow_unicode_keys=unicode, key_prefix=pb)
    hci = HashClient([("mc1", 11211)], socket_module=net, allow_unicode_keys=unicode, key_prefix=pb, ignore_exc=True)
    pci = PooledClient(("mc1", 11211), socket_module=net, allow_unicode_keys=unicode, key_prefix=pb, ignore_exc=True)
    cli = Client(("mc1", 11211), socket_module=net, allow_unicode_keys=unicode, key_prefix=pb, ignore_exc=True)
    # HashClients with nothing in the rotation (what failover leaves when every server is down): validation still comes first
    dead = {}
    for ign in (False, True):
        d = HashClient([], socket_module=net, allow_unicode_keys=unicode, key_prefix=pb, ignore_exc=ign)
        dead[ign] = d

    def via_dead(client, ign):
        from pymemcache.exceptions import MemcacheError, MemcacheIllegalInputError

        def f(key):
            net.begin_call(1)
            net.wire_log.clear()
            try:
                client.get(key)
            except MemcacheIllegalInputError:
                raise
            except MemcacheError as e:
                if "All servers" in str(e):
                    raise Accepted()
                raise
            if ign and not net.wire_log:
                raise Accepted()
            raise RuntimeError("a client without servers sent something or returned without ignore_exc")
        return f

    # a client whose server refuses connections: validation still comes before anything else
    cdown = Client(("nobody-listens", 11211), socket_module=net, allow_unicode_keys=unicode, key_prefix=pb)
    pdown = PooledClient(("nobody-listens", 11211), socket_module=net, allow_unicode_keys=unicode, key_prefix=pb)

    def via_set_down(client):
        def f(key):
            net.begin_call(1)
            net.wire_log.clear()
            try:
                client.set(key, b"v", noreply=False)
            except ConnectionRefusedError:
                raise Accepted()
            raise RuntimeError("a set on an unreachable server returned")
        return f

    def via_after_stats(client):
        # stats() validates its arguments with an empty prefix; the same text is then used as a key
        def f(key):
            from pymemcache.exceptions import MemcacheIllegalInputError
            try:
                client.check_key(key, key_prefix=b"")
            except MemcacheIllegalInputError:
                pass
            return client.check_key(key, key_prefix=pb)
        return f

    def via_get_many(client):
        def f(key):
            net.begin_call(1)
            net.wire_log.clear()
            client.get_many(["L", key])
            data = b"".join(d for _, d in net.wire_log)
            if not (data.startswith(b"get ") and data.endswith(b"\r\n")):
                raise RuntimeError("nothing sent and nothing raised" if not data else "unexpected wire bytes %r" % data[:40])
            return data[4:-2].split(b" ", 1)[1] if b" " in data[4:-2] else b""
        return f

    def via_get(client):
        def f(key):
            net.begin_call(1)
            net.wire_log.clear()
            client.get(key)
            data = b"".join(d for _, d in net.wire_log)
            if not (data.startswith(b"get ") and data.endswith(b"\r\n")):
                raise RuntimeError("nothing sent and nothing raised" if not data else "unexpected wire bytes %r" % data[:40])
            return data[4:-2]
        return f

    def via_delete(client):
        def f(key):
            net.begin_call(1)
            net.wire_log.clear()
            client.delete(key, noreply=True)
            data = b"".join(d for _, d in net.wire_log)
            return data[len(b"delete "):-len(b" noreply\r\n")]
        return f

    def via_op(client, op):
        """any key-addressed operation: the key bytes of the command it sent (the companion key "L" of multi-key calls aside)"""
        def f(key):
            net.begin_call(1)
            net.wire_log.clear()
            from pymemcache.exceptions import MemcacheIllegalInputError
            try:
                if op == "gets":
                    client.gets(key)
                elif op in ("gat", "gats", "touch"):
                    getattr(client, op)(key, expire=0)
                elif op == "gets_many":
                    client.gets_many(iter([key, "L"]))        # a one-shot iterator of keys
                elif op in ("set", "add", "append"):
                    getattr(client, op)(key, b"v")
                elif op == "cas":
                    client.cas(key, b"v", b"1")
                elif op == "set_many":
                    client.set_many({key: b"v", "L": b"w"})
                elif op == "delete_many":
                    client.delete_many(iter(["L", key]))
                elif op == "incr":
                    client.incr(key, 1)
            except MemcacheIllegalInputError:
                raise
            except Exception:   # noqa -- the server's answer to a key that was sent (a non-numeric value for incr, ...) is not the subject
                if not net.sent_cmds:
                    raise
            keys = []
            for c in net.sent_cmds:
                keys += list(c.get("keys", []))
                if "key" in c:
                    keys.append(c["key"])
            cand = [k for k in keys if k != pb + b"L"] or keys
            if not cand:
                raise RuntimeError("nothing sent and nothing raised")
            return cand[0]
        return f
    opvias = {}
    for sname, client in (("client", cl), ("pooled", pc), ("hash", hc), ("hash-ignore_exc", hci)):
        for op in OPS_VIA:
            opvias["%s-op-%s" % (sname, op)] = via_op(client, op)

    return {
        **opvias,
        "helper": lambda k: check_key_helper(k, unicode, pb),
        "client": lambda k: cl.check_key(k, pb),
        "pooled": lambda k: pc.check_key(k),
        "hash-get": via_get(hc),
        "hash-get-ignore_exc": via_get(hci),
        "pooled-get-ignore_exc": via_get(pci),
        "client-get-ignore_exc": via_get(cli),
        "pooled-get_many-ignore_exc": via_get_many(pci),
        "client-get_many-ignore_exc": via_get_many(cli),
        "hash-get_many-ignore_exc": via_get_many(hci),
        "hash-get_many": via_get_many(hc),
        "client-set-unreachable": via_set_down(cdown),
        "pooled-set-unreachable": via_set_down(pdown),
        "client-key-after-stats-argument": via_after_stats(cl),
        "hash-get-no-server": via_dead(dead[False], False),
        "hash-get-no-server-ignore_exc": via_dead(dead[True], True),
        "client-delete": via_delete(cl),
        "pooled-delete": via_delete(pc),
    }


def main(tier, rep):
    vclock.install()
    common.import_repo()
    maxlen = 2 if tier == "quick" else 3
    r = tlc.run("Key", cfg_text=f"SPECIFICATION Spec\nCONSTANTS\n  MaxLen = {maxlen}\nINVARIANT LegalRoundTrips\n"
                                 "INVARIANT UnsplittableIsIllegal\nCHECK_DEADLOCK FALSE\n", workers=16, timeout=1800)
    if r.error:
        raise common.MachineryError(r.error)
    if not r.ok:
        rep.violation("C20/model/" + ",".join(r.invariants_violated), "KeyRule is not what a server-grade tokenizer needs",
                      tlc.first_error_trace(r))
    table = r.json_lines("EXP")
    rep.set("states", r.distinct)
    rep.set("transitions", r.generated)
    rep.set("checker_cmd", r.cmd)
    rep.set("class_table_rows", len(table))
    if not any(t["legal"] for t in table) or not any(not t["legal"] for t in table):
        raise common.MachineryError("vacuous class table")

    records = []
    expect = []       # class-level verdict from the table for the concretised records (consistency of the abstraction)
    vias_cache = {}

    def rec(via, key, unicode, prefix, expected=None):
        k = (unicode, tuple(prefix))
        if k not in vias_cache:
            vias_cache[k] = make_vias(unicode, prefix)
        verdict, out = observe(vias_cache[k][via], key, unicode, prefix)
        isstr = isinstance(key, str)
        records.append({"e": "key", "via": via, "isstr": isstr, "u": [ord(c) for c in key] if isstr else list(key),
                        "unicode": unicode, "prefix": list(prefix), "verdict": verdict, "out": out})
        expect.append(expected)

    seed = common.seed()
    # ignore_exc must not turn a rejected key into a miss, and an empty rotation must not hide the rejection either
    VIAS = ["helper", "client", "pooled", "hash-get", "client-delete", "hash-get-ignore_exc", "pooled-delete",
            "client-get-ignore_exc", "pooled-get-ignore_exc", "hash-get-no-server", "hash-get-no-server-ignore_exc",
            "pooled-get_many-ignore_exc", "client-get_many-ignore_exc", "client-set-unreachable", "pooled-set-unreachable",
            "client-key-after-stats-argument", "hash-get_many-ignore_exc", "hash-get_many"]
    VIAS += ["%s-op-%s" % (sname, op) for sname in ("client", "pooled", "hash", "hash-ignore_exc") for op in OPS_VIA]
    n = 0
    for row in table:
        cls = BYTE_CLASS if not row["isstr"] else CP_CLASS
        members = [cls[c] for c in row["u"]]
        full = (not row["isstr"]) and len(row["u"]) <= 2 and row["prefix"] == []
        if full:
            combos = itertools.product(*members)            # every byte of every class: all 65,792 byte keys
        else:
            # every member of each class at one position, representatives elsewhere
            combos = set()
            for pos in range(len(members)):
                for m in members[pos]:
                    c = [ms[(seed + pos) % len(ms)] for ms in members]
                    c[pos] = m
                    combos.add(tuple(c))
            combos = sorted(combos)
        for c in combos:
            n += 1
            key = "".join(map(chr, c)) if row["isstr"] else bytes(c)
            via = "helper" if full and n % 16 else VIAS[n % len(VIAS)]
            rec(via, key, row["unicode"], row["prefix"], row["legal"])
    rep.set("records_from_class_table", len(records))

    # boundary lengths (bytes 248..252) for ASCII and multi-byte keys, with prefixes
    units = {"ascii": "a", "2byte": "é", "3byte": "€", "4byte": "\U0001F600"}
    for name, ch in units.items():
        w = len(ch.encode("utf8"))
        for plen in ([0, 1, 7, 100, 249, 250] if tier == "quick" else range(0, 251)):
            prefix = [112] * plen
            for total in range(247, 254):
                body = total - plen
                if body < 1:
                    continue
                nch, pad = divmod(body, w)
                s = ch * nch + "a" * pad
                if not s:
                    continue
                for unicode in (False, True):
                    n += 1
                    rec(VIAS[n % len(VIAS)], s, unicode, prefix)
                    if name != "ascii":
                        rec(VIAS[(n + 1) % len(VIAS)], s.encode("utf8"), unicode, prefix)
    # every byte at every position of keys of length 8 and 250
    for L, positions in ((8, range(8)), (250, range(250) if tier == "thorough" else [0, 1, 124, 248, 249])):
        for pos in positions:
            for b in range(256):
                n += 1
                key = bytearray(b"k" * L)
                key[pos] = b
                rec(VIAS[n % 3], bytes(key), bool(n % 2), [])
    # length-3 keys (quick: class representatives only come from the table when MaxLen = 3)
    acc, rej, st, _ = tlc.validate_traces("KeyTrace", batch(records), chunk=200)
    rep.set("traces_validated_against_impl", len(records))
    rep.set("trace_states", st)
    for ti, lst in sorted(rej.items()):
        for pos, clauses in lst:
            i = ti * BATCH + pos - 1
            rc = records[i]
            kind = "str" if rc["isstr"] else "bytes"
            cl = ",".join(sorted(c.strip().strip('"') for c in clauses.strip("{}").split(",")))
            klass = "".join(byte_class_name(x) for x in rc["u"][:4]) + ("+" if len(rc["u"]) > 4 else "")
            sig = f"C20/{rc['via']}/{kind}/{cl}/{klass if len(rc['u']) <= 4 else 'len' + str(len(rc['u']))}"
            if rc["via"].endswith("-ignore_exc") and cl == "C20-rejection-is-MemcacheIllegalInputError" \
                    and rc["verdict"] == "other:RuntimeError":
                sig = f"C20/{rc['via']}/rejection-swallowed"
            rep.violation(sig,
                          f"key {rc['u'][:12]}{'...' if len(rc['u']) > 12 else ''} ({kind}, unicode={rc['unicode']}, "
                          f"prefix len {len(rc['prefix'])}) via {rc['via']}: verdict {rc['verdict']}: {cl}", rc)
    # the class abstraction itself: concretised members must share the class's verdict (as decided by TLC)
    bad_abs = 0
    rejected_records = {ti * BATCH + pos - 1 for ti, lst in rej.items() for pos, _ in lst}
    for i, (rc, ex) in enumerate(zip(records, expect)):
        if ex is None or i in rejected_records:
            continue
        if (rc["verdict"] in ("ok", "accepted")) != ex:
            bad_abs += 1
    if bad_abs:
        raise common.MachineryError(f"{bad_abs} concretised keys disagree with their class verdict although TLC accepted them: "
                                    "the class abstraction of drivers/c20.py is wrong")
    rep.set("evaluations", len(records))
    rep.set("distinct_nontrivial", len({(r_["isstr"], tuple(r_["u"]), r_["unicode"], tuple(r_["prefix"])) for r_ in records
                                        if len(r_["u"]) > 1 or r_["u"][0] < 33 or r_["u"][0] > 126}))
    rep.set("rule", "one record per (key, unicode flag, prefix, validation path); keys: all byte strings of length 1-2, every member of "
                    "every class at every position for the other class-table rows, boundary lengths, every byte at positions of 8- and "
                    "250-byte keys; non-trivial = not a single printable ASCII byte; distinct by (key, unicode, prefix)")
    rep.set("exhaustive", False)
    rep.set("exhaustive_part", "all 65,792 byte keys of length 1-2 without prefix; the class table itself")
    for i in (5, len(records) // 2, len(records) - 3):
        rep.sample({k: (v if not isinstance(v, list) or len(v) < 12 else v[:12] + ["..."]) for k, v in records[i].items()})
    rep.assumptions += ["str keys are well-formed Unicode (no lone surrogates)", "scope: prefixed form non-empty",
                        "validation through operations: get / get_many / delete on the three classes, with and without ignore_exc, with an empty rotation"]


BATCH = 500


def batch(records):
    return [{"h": {"maxrej": BATCH + 1}, "ev": records[i:i + BATCH]} for i in range(0, len(records), BATCH)]


def byte_class_name(b):
    return {32: "S", 9: "T", 13: "R", 10: "N", 11: "V", 12: "F", 0: "0", 127: "D"}.get(
        b, "c" if b < 32 else "a" if b < 127 else "h" if b < 256 else "u")
