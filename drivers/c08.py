"""C08 -- pooled connections are never shared between threads.

(A) TLC explores the statement-level model of ObjectPool (spec/PoolThreads.tla: get / release / destroy /
    clear as their lock-protected steps, 2-3 threads x 1-2 operations, max_size 1-2) for ALL interleavings
    against the contract monitor spec/PoolRule.tla.
(B) The REAL ObjectPool and PooledClient are run under a deterministic scheduler (lib/sched.py:
    sys.monitoring LINE events -- thorough: INSTRUCTION events -- inside pool.py and PooledClient's
    methods, the lock through the lock_generator= seam, every fake-socket call): all schedules with up to
    2 preemptions (quick; thorough 3) of 2-3 threads each performing 1-2 operations (succeeding, failing
    -> destroy, quit-style destroy+release, clear/close).  Every distinct interleaved execution is
    validated by TLC against PoolRule: held by one thread, no duplicates, size <= max_pool_size, only the
    capacity error and only when full, no deadlock, at the end every connection idle or closed once."""
import itertools
import json

from lib import common, fakesock, sched, tlc, vclock

PROP = "C08"
OPS = ["ok", "fail", "quit", "clear"]


class Rec:
    def __init__(self):
        self.ev = []
        self.ids = {}
        self.last_snap = None

    def oid(self, o):
        if o is None:
            return 0
        k = id(o)
        if k not in self.ids:
            self.ids[k] = len(self.ids) + 1
            self.keep = getattr(self, "keep", [])
            self.keep.append(o)
        return self.ids[k]


def instrument(pool, rec, ctrl):
    """log the pool API boundaries, creation and after_remove of one pool instance"""
    def wrap(name):
        orig = getattr(pool, name)

        def f(*a, **k):
            w = ctrl.current_worker()
            t = w.idx + 1 if w else 0
            o = rec.oid(a[0]) if a else 0
            rec.ev.append({"e": "call", "t": t, "m": name, "o": o})
            try:
                r = orig(*a, **k)
            except RuntimeError as e:
                rec.ev.append({"e": "raise", "t": t, "m": name, "x": "capacity" if "Too many objects" in str(e) else "other:RuntimeError"})
                raise
            except BaseException as e:   # noqa
                rec.ev.append({"e": "raise", "t": t, "m": name, "x": "other:" + type(e).__name__})
                raise
            rec.ev.append({"e": "ret", "t": t, "m": name, "o": rec.oid(r) if name == "get" else o})
            return r
        setattr(pool, name, f)
    for n in ("get", "release", "destroy", "clear"):
        wrap(n)
    if not hasattr(pool, "_obj_creator") or not hasattr(pool, "_after_remove"):
        raise common.MachineryError("ObjectPool no longer exposes _obj_creator/_after_remove: cannot observe create/close")
    oc, ar = pool._obj_creator, pool._after_remove

    def creator():
        o = oc()
        w = ctrl.current_worker()
        rec.ev.append({"e": "create", "t": w.idx + 1 if w else 0, "o": rec.oid(o)})
        return o

    def after_remove(o):
        w = ctrl.current_worker()
        rec.ev.append({"e": "close", "t": w.idx + 1 if w else 0, "o": rec.oid(o)})
        return ar(o)
    pool._obj_creator, pool._after_remove = creator, after_remove


def snapper(pool, rec):
    def f(choice):
        s = ([rec.oid(o) for o in pool.used], [rec.oid(o) for o in pool.free])
        if s != rec.last_snap:
            rec.last_snap = s
            rec.ev.append({"e": "snap", "used": s[0], "free": s[1]})
    return f


def run_pool_program(P, codes, programs, maxsize, prefix, gran):
    rec = Rec()
    ctrl = sched.Controller(codes, granularity=gran)

    class Obj:
        pass
    pool = P.ObjectPool(Obj, after_remove=lambda o: None, max_size=maxsize, lock_generator=ctrl.lock_generator)
    instrument(pool, rec, ctrl)
    ctrl.on_yield = snapper(pool, rec)

    def worker(prog):
        def w(i):
            for op in prog:
                try:
                    if op == "clear":
                        pool.clear()
                        continue
                    o = pool.get()
                except RuntimeError:
                    continue
                ctrl.yield_point("using")
                if op == "ok":
                    pool.release(o)
                elif op == "fail":
                    pool.destroy(o)
                else:
                    pool.destroy(o)
                    pool.release(o)
        return w
    try:
        ch = ctrl.run([worker(p) for p in programs], prefix)
    except sched.Deadlock:
        rec.ev.append({"e": "deadlock"})
        return rec.ev, ctrl.trace_choices
    snapper(pool, rec)(None)
    for wk in ctrl.workers:
        if wk.error is not None:
            rec.ev.append({"e": "raise", "t": wk.idx + 1, "m": "thread", "x": "other:" + type(wk.error).__name__})
    rec.ev.append({"e": "end"})
    return rec.ev, ch


def run_pooled_client_program(base, P, codes, programs, maxsize, prefix, gran):
    rec = Rec()
    ctrl = sched.Controller(codes, granularity=gran)
    net = fakesock.FakeNet()
    net.add_server(("mc1", 11211))
    pc = base.PooledClient(("mc1", 11211), socket_module=net, max_pool_size=maxsize, lock_generator=ctrl.lock_generator,
                           default_noreply=False)
    instrument(pc.client_pool, rec, ctrl)
    ctrl.on_yield = snapper(pc.client_pool, rec)
    net.begin_call(1, {("recv", 2): "reset"} if any("fail" in p for p in programs) else None)
    # preempt at every socket call too
    orig_fault = net.next_fault

    def nf(op):
        ctrl.yield_point("socket")
        return orig_fault(op)
    net.next_fault = nf

    def worker(prog):
        def w(i):
            from pymemcache.exceptions import MemcacheError
            for op in prog:
                try:
                    if op == "clear":
                        pc.close()
                    elif op == "ok":
                        pc.set("k%d" % i, b"v")
                    elif op == "fail":
                        pc.get("k")          # the 2nd recv of the execution is reset: whoever gets it fails
                    elif op == "bad":
                        pc.get("illegal key")            # rejected before any exchange, while holding a connection
                    else:
                        pc.quit()
                except Exception as e:   # noqa -- failing calls are part of the program; WHAT escapes is part of the contract
                    if isinstance(e, RuntimeError) and "Too many objects" in str(e):
                        x = "capacity"
                    elif isinstance(e, (OSError, MemcacheError)):
                        x = "conn"
                    else:
                        # an error raised INSIDE the pool's code is the pool's internal error; one raised in the connection
                        # code (e.g. the connection was closed under this thread by another thread's close()) is the
                        # price of closing a client that is in use, not C08's subject
                        import traceback
                        tb = traceback.extract_tb(e.__traceback__)
                        inside = bool(tb) and tb[-1].filename.replace("\\", "/").endswith("pymemcache/pool.py")
                        x = ("other:" + type(e).__name__) if inside else "conn"
                    rec.ev.append({"e": "raise", "t": i + 1, "m": "api", "x": x})
        return w
    try:
        ch = ctrl.run([worker(p) for p in programs], prefix)
    except sched.Deadlock:
        rec.ev.append({"e": "deadlock"})
        return rec.ev, ctrl.trace_choices
    snapper(pc.client_pool, rec)(None)
    rec.ev.append({"e": "end"})
    return rec.ev, ch


def codes_of(*owners, names=None):
    """the code objects (nested ones included) of every function defined by the given classes / modules -- whatever they are
    called: the scheduler preempts at their lines, so a helper split off by a refactoring is still covered"""
    import types
    out, seen = [], set()

    def add(code):
        if id(code) in seen:
            return
        seen.add(id(code))
        out.append(code)
        for c in code.co_consts:
            if isinstance(c, types.CodeType):
                add(c)

    def unwrap(f):
        f = getattr(f, "__func__", f)
        if isinstance(f, property):
            return [g for g in (f.fget, f.fset, f.fdel) if g]
        hops = 0
        while hasattr(f, "__wrapped__") and hops < 5:
            f = f.__wrapped__
            hops += 1
        return [f] if isinstance(f, types.FunctionType) else []

    for owner in owners:
        for nm, attr in sorted(vars(owner).items(), key=lambda kv: kv[0]):
            if names is not None and nm not in names:
                continue
            if isinstance(attr, type) and isinstance(owner, types.ModuleType):
                if attr.__module__ == owner.__name__:
                    for c in codes_of(attr):
                        add(c)
                continue
            for f in unwrap(attr):
                add(f.__code__)
    return out



def _explore_chunk(arg):
    plans, budget, _names, tier = arg
    from pymemcache import pool as P
    from pymemcache.client import base
    pool_codes = codes_of(P)
    pc_codes = pool_codes + codes_of(base.PooledClient) + codes_of(base.Client, names=("close", "_connect"))
    seen = {}
    nexec = [0]
    for kind, programs, ms, p, gran, *rest in plans:
        mult = rest[0] if rest else 1
        def make_run(prefix, kind=kind, programs=programs, ms=ms, gran=gran):
            if kind == "pool":
                ev, ch = run_pool_program(P, pool_codes, programs, ms, prefix, gran)
            else:
                ev, ch = run_pooled_client_program(base, P, pc_codes, programs, ms, prefix, gran)
            nexec[0] += 1
            key = json.dumps(ev, sort_keys=True) + str(ms)
            if key not in seen:
                seen[key] = {"h": {"max": ms, "maxrej": 4}, "ev": ev, "what": (kind, programs, ms, gran), "prefix": list(prefix)}
            return ch
        sched.explore(make_run, p, max_execs=budget * mult * (8 if len(programs) == 2 and len(programs[0]) == 1 else 1))
    return seen, nexec[0]


def main(tier, rep):
    vclock.install()
    common.import_repo()
    from pymemcache import pool as P
    from pymemcache.client import base
    # ---- (A) model
    from drivers import c08_model
    t0 = common._real_time()
    # the unbounded (inductive, Apalache) part runs beside everything else: it needs one core and no TLC
    import threading
    ind_box = {}

    def ind():
        try:
            ind_box["r"] = c08_model.inductive_run(tier)
        except BaseException as e:   # noqa
            ind_box["e"] = e
    ind_thread = threading.Thread(target=ind)
    ind_thread.start()
    # (TLC explores the bounded model while the schedules below run on the real pool)
    mod_box = {}

    def mod():
        try:
            c08_model.check(rep, tier)
            rep.set("t_model_s", round(common._real_time() - t0, 1))
        except BaseException as e:   # noqa
            mod_box["e"] = e
    mod_thread = threading.Thread(target=mod)
    mod_thread.start()
    # ---- (B) the real code under the scheduler
    pool_codes = codes_of(P)
    pool_codes_names = None
    seen = {}
    nexec = 0
    plans = []
    pre = 2 if tier == "quick" else 3
    one = [[o] for o in OPS]
    two = [[a, b] for a in OPS for b in OPS]
    for ms in (1, 2):
        for a, b in itertools.product(one, one):
            plans.append(("pool", [a, b], ms, pre, "line"))
        for a, b in itertools.product(two, one):
            plans.append(("pool", [a, b], ms, 1 if tier == "quick" else 2, "line"))
        for a, b, c in itertools.product(one, one, one):
            plans.append(("pool", [a, b, c], ms, 1 if tier == "quick" else 2, "line"))
    pcone = one + [["bad"]]
    for ms in (1, 2):
        for a, b in itertools.product(pcone, pcone):
            plans.append(("pc", [a, b], ms, 1 if tier == "quick" else 2, "line"))
    # a call rejected before any exchange next to an ordinary call: two preemptions (the window is inside one call)
    for ms in (1, 2):
        for other in (["ok"], ["fail"]):
            plans.append(("pc", [["bad"], other], ms, 2, "line", 3))
    # quit() hands its connection back on two paths (its own clean-up and the context manager's): two preemptions next to a
    # call that is in the middle of its exchange
    # (the thorough tier explores every pair of pooled-client calls with two preemptions anyway)
    for ms in ((1, 2) if tier == "quick" else ()):
        for other in (["ok"], ["quit"]):
            plans.append(("pc", [["quit"], other], ms, 2, "line", 4))
    if tier == "thorough":
        for ms in (1, 2):
            for a, b in itertools.product(one, one):
                plans.append(("pool", [a, b], ms, 2, "instruction"))
    budget = 40 if tier == "quick" else 100000
    # one fresh interpreter per chunk (real clock, no fork of a threaded process)
    import os
    import subprocess
    import sys
    chunks = [plans[i::16] for i in range(16)]
    procs = []
    for c in chunks:
        p_ = subprocess.Popen([sys.executable, "-B", "-c",
                               "import sys, json; sys.path.insert(0, %r); from lib import common; common.import_repo(); "
                               "from drivers import c08; a = json.load(sys.stdin); "
                               "seen, n = c08._explore_chunk((a['plans'], a['budget'], None, a['tier'])); "
                               "json.dump([list(seen.values()), n], sys.stdout)" % common.VERIF],
                              stdin=subprocess.PIPE, stdout=subprocess.PIPE, stderr=subprocess.PIPE, text=True,
                              env=dict(os.environ, VERIF_REPO=common.REPO))
        p_.stdin.write(json.dumps({"plans": c, "budget": budget, "tier": tier}))
        p_.stdin.close()
        procs.append(p_)
    results = []
    for p_ in procs:
        out = p_.stdout.read()
        err = p_.stderr.read()
        if p_.wait(timeout=3000) != 0:
            raise common.MachineryError("schedule explorer failed: " + err[-800:])
        vals, n = json.loads(out)
        results.append(({json.dumps(v["ev"], sort_keys=True) + str(v["h"]["max"]): v for v in vals}, n))
    ind_thread.join()
    mod_thread.join()
    if "e" in mod_box:
        raise mod_box["e"]
    if "e" in ind_box:
        raise ind_box["e"]
    c08_model.inductive_report(rep, ind_box["r"])
    for part, n in results:
        nexec += n
        for k, v in part.items():
            seen.setdefault(k, v)
    traces = list(seen.values())
    rep.set("t_schedules_s", round(common._real_time() - t0, 1))
    rep.set("schedules_executed", nexec)
    rep.set("distinct_interleaved_executions", len(traces))
    acc, rej, st, _ = tlc.validate_traces("PoolTrace", [{"h": t["h"], "ev": t["ev"]} for t in traces], chunk=4000)
    rep.set("traces_validated_against_impl", len(traces))
    rep.set("trace_states", st)
    for i, lst in sorted(rej.items()):
        t = traces[i]
        pos, clauses = lst[0]
        cl = ",".join(sorted(x.strip().strip('"') for x in clauses.strip("{}").split(",")))
        ev = t["ev"][pos - 1]
        progs = "|".join("+".join(p) for p in t["what"][1])
        rep.violation(f"C08/{t['what'][0]}/{cl}/{ev.get('m', ev['e'])}",
                      f"{t['what']}: schedule prefix {t['prefix']}: event {pos} {ev} rejected: {cl} (programs {progs})",
                      {"what": t["what"], "prefix": t["prefix"], "events": t["ev"]})
    rep.set("evaluations", nexec)
    rep.set("distinct_nontrivial", len([t for t in traces if sum(1 for e in t["ev"] if e["e"] == "call") >= 3]))
    rep.set("rule", "one execution per schedule (stateless DFS over scheduler choices within the preemption bound); executions are de-duplicated by "
                    "their observable event sequence; non-trivial = at least three pool API calls in the execution")
    rep.sample({"what": traces[len(traces) // 2]["what"], "events": traces[len(traces) // 2]["ev"][:10]})
    rep.assumptions += ["preemption at LINE (thorough: also INSTRUCTION) events inside pool.py / PooledClient methods, lock operations and socket calls; "
                        "not inside C calls (GIL: deque.append/popleft/remove are atomic)",
                        "closing is observed at the pool's after_remove callback"]
