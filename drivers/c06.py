"""C06 -- connection lifecycle: errors close, next call reconnects, no socket leaks, timeouts, TLS,
address fallback.  Same machinery as C01 (drivers/connlib.py, spec/ConnRule.tla); the explored
space is the configuration grid (TCP with 1..3 resolved addresses, UNIX, TLS, no_delay, keepalive,
timeout pairs) x every single-fault plan over {getaddrinfo, socket, setsockopt, wrap_socket,
settimeout, connect, sendall, recv, close} (plus multi-address creation failures) x follow-ups."""
import itertools

from lib import common, vclock
from drivers import connlib as L

PROP = "C06"
STRUCT = {"io-on-a-connected-socket", "io-inside-a-call", "connect-on-fresh-socket", "opt-on-open-socket",
          "wrap-on-open-socket", "tmo-on-open-socket", "close-known-socket"}


def relevant(c):
    return c.startswith("C06-") or c in STRUCT


OPS = [("set", (False,)), ("get", (None,)), ("set_many", (None,)), ("delete", (False,)), ("quit", (None,))]
TIMEOUTS = [(3, 7), (None, 7), (3, None), (None, None), (5, 5), (0, 4), (4, 0)]      # 0 = non-blocking, not "no timeout"


def configs(tier):
    out = []
    i = 0
    for unix, naddr in [(False, 1), (False, 2), (False, 3), (True, 1)]:
        for tls in (False, True):
            if unix and tls:
                continue
            for nodelay, keepalive in [(False, False), (True, False), (True, True)]:
                if unix and nodelay:
                    continue
                tms = TIMEOUTS if tier == "thorough" else [TIMEOUTS[i % len(TIMEOUTS)], TIMEOUTS[(i + 2) % len(TIMEOUTS)]]
                for ctmo, tmo in tms:
                    i += 1
                    out.append(dict(unix=unix, naddr=naddr, tls=tls, nodelay=nodelay, keepalive=keepalive,
                                    ctmo=ctmo, tmo=tmo))
    return out


def multi_address_plans(cfg_extra):
    """creation-phase failures for the first k-1 (or all) resolved addresses"""
    n = cfg_extra["naddr"]
    plans = []
    if cfg_extra["unix"] or n < 2:
        return plans
    per_addr = ["socket"] + (["setsockopt"] if cfg_extra["nodelay"] else []) + (["wrap"] if cfg_extra["tls"] else [])
    kinds = {"socket": "emfile", "setsockopt": "oserror", "wrap": "ssl"}
    for nfail in range(1, n + 1):
        for combo in itertools.product(per_addr, repeat=nfail):
            plan = {}
            cnt = {"socket": 0, "setsockopt": 0, "wrap": 0}
            for a, stage in enumerate(combo):
                # address a fails at `stage`; earlier stages of that address succeed
                for stg in per_addr:
                    cnt[stg] += 1
                    if stg == stage:
                        plan[(stg, cnt[stg])] = kinds[stg]
                        break
            plans.append(plan)
    return plans


def main(tier, rep):
    vclock.install()
    common.import_repo()
    progs = []
    n = common.seed()
    for ce in configs(tier):
        kinds = L.KINDS if tier == "thorough" else [L.KINDS[n % 4], L.KINDS[(n + 1) % 4]]
        n += 1
        ps = L.gen_fault_programs(kinds, OPS if tier == "thorough" else OPS[n % 2::2], tier, seed=n, cfg_extra=ce,
                                  quick_stride=2)
        progs += ps
        for plan in multi_address_plans(ce):
            for kind in kinds:
                cfg = L.Cfg(kind=kind, **ce)
                for warm in (False, True):
                    steps = ([("call", "get", None, {("recv", 1): "reset"}, "all")] if warm else []) + \
                            [("call", "set", False, plan, "all"), ("tick", 2), ("call", "get", None, None, "bytes"),
                             ("call", "add", False, None, "all")]
                    progs.append((cfg, steps))
    # the server moves to another address under the same name: the connection in use keeps working, and after a failure the
    # next call -- a fresh connection -- reaches the server where the name points NOW
    for kind in ("client", "pooled"):
        for fault in ({("recv", 1): "reset"}, {("sendall", 1): "reset"}, {("recv", 1): "timeout"}, {("reply", 0): "garbage"}):
            for when in ("before-the-failure", "after-the-failure"):
                for tls in (False, True):
                    steps = [("call", "set", False, None, "all")]
                    if when == "before-the-failure":
                        steps += [("repoint", 0), ("call", "get", None, None, "all")]
                    steps += [("call", "get", None, fault, "all")]
                    if when == "after-the-failure":
                        steps += [("repoint", 0)]
                    steps += [("tick", 1), ("call", "get", None, None, "bytes"), ("call", "add", False, None, "all"),
                              ("repoint", 0), ("call", "gets", None, None, "all"), ("call", "quit", None, None, "all"),
                              ("call", "set", False, None, "all")]
                    progs.append((L.Cfg(kind=kind, tls=tls), steps))
    # an error line answered to one command of a pipelined batch (always run: the batch operations are few)
    for kind in L.KINDS:
        for op, nr in (("delete_many", False), ("set_many", False), ("get_many", None)):
            for idx in (0, 1, 2):
                for rf in ("client_error", "server_error", "error"):
                    for seg in ("all", "bytes"):
                        steps = [("call", "set", False, None, "all"), ("call", op, nr, {("reply", idx): rf}, seg), ("tick", 1)]
                        steps += [("call", f[0], f[1], None, seg) for f in L.FOLLOWUPS[(idx + len(rf)) % len(L.FOLLOWUPS)] if L.has_op(kind, f[0])]
                        progs.append((L.Cfg(kind=kind), steps))
    traces = [L.run_program(cfg, steps) for cfg, steps in progs]
    # a HashClient that gives up on its server (retry_attempts exhausted) while the server is coming back: whatever
    # connection the last probes opened is closed by close()
    giveup = []
    for kind in ("hash", "hashpooled"):
        for ra in (0, 1, 2):
            for nfail in range(1, ra + 3):
                for op in ("get", "set"):
                    cfg = L.Cfg(kind=kind, hash_ra=ra)
                    steps = []
                    for i in range(nfail):
                        steps += [("call", op, False if op == "set" else None, {("connect", 1): "refused"}, "all"), ("tick", 1)]
                    steps += [("call", op, False if op == "set" else None, None, "all"), ("tick", 1), ("call", "get", None, None, "all")]
                    giveup.append(L.run_program(cfg, steps))
    L.validate(rep, traces, relevant, PROP)
    # (whether the next call works is failover's business there, C13: only the socket bookkeeping clauses apply)
    L.validate(rep, giveup, lambda c: relevant(c) and c != "C06-next-call-after-a-failure-works", PROP)
    # code -> spec on executions the harness did not design: the repository's own integration tests
    from drivers import repoit
    repoit.conn_part(rep, PROP, relevant)
    from drivers import connmodel
    connmodel.design_and_replay(rep, tier, PROP, relevant)
    rep.set("evaluations", len(traces))
    rep.set("distinct_nontrivial", len({(str(sorted(t["cfg"].items())),) + tuple((s[1], s[2], s[3]) for s in t["steps"] if s[0] == "call" and s[3]) for t in traces}))
    rep.set("configurations", len(configs(tier)))
    rep.set("rule", "one execution per (configuration, stack, warm/fresh, op, single-fault plan | multi-address creation-failure plan, follow-ups); "
                    "non-trivial = a fault is injected; distinct by (configuration, stack, op, plan)")
    for t in traces[3::max(1, len(traces) // 4)][:4]:
        rep.sample({"cfg": t["cfg"], "program": t["steps"], "n_events": len(t["ev"])})
    rep.assumptions += ["at most one Client per server address is live in sequential use, so 'one open socket per Client' is observed per server",
                        "wrap_socket transfers the descriptor to the wrapper on success and leaves it with the caller on failure (as ssl does)",
                        "double faults inside one connection attempt (e.g. setsockopt fails and the cleanup close() fails too) are not explored"]
