"""C14 -- murmur3_32 equals the reference MurmurHash3_x86_32.

spec/Murmur3.tla is the reference algorithm written in TLA+ over <<hi16, lo16>> words, pinned by the
published test vectors (ASSUMEs evaluated by TLC).  The harness evaluates pymemcache's murmur3_32 on:
every string over {00, 7F, 80, FF} up to length 4 (thorough 5) and over six symbols up to length 3
(4); every length 0..64 with random contents (every tail length and block count) plus long inputs
(100..4096, across the 256-byte mark); seeds {0, 1, 2^31, 2^32-1, random}; strings with code points
above 255 (range and determinism only).  Every (input, seed, result) is recomputed by TLC
(spec/Murmur3Trace.tla); a second interpreter with a different PYTHONHASHSEED must return the same
values."""
import itertools
import json
import os
import random
import subprocess
import sys

from lib import common, tlc

PROP = "C14"
CHILD = r"""
import sys, json
sys.path.insert(0, sys.argv[1])
from pymemcache.client.murmur3 import murmur3_32
vs = json.load(sys.stdin)
def h(d, s):
    try:
        return murmur3_32("".join(map(chr, d)), s)
    except Exception as e:
        return "raised:" + type(e).__name__
print(json.dumps([h(d, s) for d, s in vs]))
"""


def main(tier, rep):
    common.import_repo()
    from pymemcache.client.murmur3 import murmur3_32
    rnd = random.Random(common.seed())
    seeds = [0, 1, 2 ** 31, 2 ** 32 - 1]
    vec = []   # (codepoints, seed)
    for n in range(0, (6 if tier == "quick" else 7)):
        for s in itertools.product([0x00, 0x7F, 0x80, 0xFF], repeat=n):
            vec.append((list(s), seeds[len(vec) % 4] if n > 2 else 0))
    for n in range(0, (4 if tier == "quick" else 5)):
        for s in itertools.product([0x31, 0x2D, 0x61, 0xE9, 0x0A, 0xFE], repeat=n):
            vec.append((list(s), rnd.choice(seeds + [rnd.randrange(2 ** 32)])))
    reps = 20 if tier == "quick" else 120
    for n in range(0, 65):
        for _ in range(reps):
            vec.append(([rnd.randrange(256) for _ in range(n)], rnd.choice(seeds + [rnd.randrange(2 ** 32)] * 2)))
    for n in [100, 127, 128, 250, 255, 256, 257, 258, 259, 260, 300, 511, 512, 1000, 4096]:
        for _ in range(2 if tier == "quick" else 6):
            vec.append(([rnd.randrange(256) for _ in range(n)], rnd.choice(seeds + [rnd.randrange(2 ** 32)])))
    for s in seeds + [rnd.randrange(2 ** 32) for _ in range(20)]:
        vec.append(([], s))
        vec.append(([54, 54, 54, 54], s))
        vec.append((list(b"10.0.0.1:11211-some-key"), s))
    # the function is pure: the same string under one seed and then another (in both orders, repeatedly) -- a value remembered
    # from an earlier call must not come back
    for d in ([], [54, 54, 54, 54], list(b"10.0.0.1:11211-key"), [0, 0, 0, 0, 0], [rnd.randrange(256) for _ in range(37)]):
        for a, b in ((1, 0), (0, 1), (2 ** 31, 0), (0x9747B28C, 0), (0, 0x9747B28C), (5, 6)):
            vec += [(d, a), (d, b), (d, a), (d, b)]
    nlat = len(vec)
    # beyond Latin-1: still a deterministic 32-bit value
    for _ in range(60 if tier == "quick" else 600):
        n = rnd.randrange(1, 12)
        vec.append(([rnd.choice([0x100, 0x20AC, 0x4E2D, 0x1F600, 0xFF, 0x41, 0x10FFFF]) for _ in range(n)], rnd.choice(seeds)))
    def h(d, s):
        try:
            return murmur3_32("".join(map(chr, d)), s)
        except Exception as e:   # noqa -- "any string hashes to a 32-bit value": a raise is an outcome, not a harness failure
            return "raised:" + type(e).__name__
    got = [h(d, s) for d, s in vec]
    env = dict(os.environ, PYTHONHASHSEED="random")
    p = subprocess.run([sys.executable, "-B", "-c", CHILD, common.REPO], input=json.dumps(vec), text=True,
                       stdout=subprocess.PIPE, stderr=subprocess.PIPE, env=env, timeout=600)
    if p.returncode != 0:
        raise common.MachineryError("child interpreter failed: " + p.stderr[-500:])
    again = json.loads(p.stdout)

    def word(x):
        if not isinstance(x, int) or x < 0 or x >= 2 ** 32:
            return [-1, -1] if not isinstance(x, int) else [min(x >> 16, 99999) if x >= 0 else -1, x & 0xFFFF]
        return [x >> 16, x & 0xFFFF]
    evs = [{"e": "hash", "d": d if i < nlat else [], "s": word(s), "h": word(h), "lat1": i < nlat, "again": h == a, "i": i}
           for i, ((d, s), h, a) in enumerate(zip(vec, got, again))]
    B = 400
    traces = [{"h": {"maxrej": B + 1}, "ev": evs[i:i + B]} for i in range(0, len(evs), B)]
    acc, rej, st, tr = tlc.validate_traces("Murmur3Trace", traces, chunk=8)
    rep.set("states", st)
    rep.set("transitions", tr)
    rep.set("traces_validated_against_impl", len(evs))
    rep.set("checker_cmd", "tlc Murmur3Trace (ASSUMEs: 22 published vectors; one monitor step per recorded vector)")
    for ti, lst in sorted(rej.items()):
        for pos, clauses in lst:
            i = ti * B + pos - 1
            d, s = vec[i]
            cl = ",".join(sorted(x.strip().strip('"') for x in clauses.strip("{}").split(",")))
            cls = "len%%4=%d" % (len(d) % 4) + (",len>=256" if len(d) >= 256 else "") + (",high-bit" if any(x > 127 for x in d) else "") + \
                  (",seed=%s" % ("2^32-1" if s == 2 ** 32 - 1 else "2^31" if s == 2 ** 31 else "small" if s < 2 else "other"))
            rep.violation(f"C14/{cl}/{cls if i < nlat else 'non-latin1'}",
                          f"murmur3_32({bytes(d[:24]) if i < nlat else d[:8]!r}{'...' if len(d) > 24 else ''} (len {len(d)}), seed={s}) "
                          f"= {got[i]!r} (other process: {again[i]!r}): {cl}", {"data": d[:300], "seed": s, "got": got[i]})
    rep.set("evaluations", len(evs))
    rep.set("distinct_nontrivial", len({(tuple(d), s) for d, s in vec if d}))
    rep.set("rule", "one hash evaluation per (input, seed); non-trivial = non-empty input; distinct by (input, seed)")
    rep.set("exhaustive_part", "all strings over {00,7F,80,FF} up to length 4/5 and over six symbols up to length 3/4")
    for i in (50, nlat - 5, len(vec) - 1):
        rep.sample({"data": vec[i][0][:16], "len": len(vec[i][0]), "seed": vec[i][1], "hash": got[i]})
    rep.assumptions += ["TLC is an independent evaluator of a transcribed pure function here, not an explorer",
                        "Bitwise module of the CommunityModules for 16-bit xor"]
