"""C17 -- RetryingClient retries exactly as configured.

1. TLC checks the as-coded model (spec/Retrying.tla) against the contract monitor
   (spec/RetryRule.tla) over ALL configurations x ALL outcome sequences and exports every
   complete behaviour (history variable, no VIEW: one state per path => every path).
2. Every exported behaviour is replayed into the real RetryingClient (scripted inner client,
   recorded sleep); the execution is recorded at the seams.
3. All recorded executions are validated by TLC against the contract (spec/RetryingTrace.tla).
   Only (3) produces VIOLATION; (2) differing from the model while (3) accepts is MODEL-DRIFT.
"""
import itertools

from lib import common, tlc, vclock


class Base(Exception):
    pass


class SubA(Base):
    pass


class SubB(Base):
    pass


class Other(Exception):
    pass


class NotExcBase(BaseException):
    pass


CLS = {"Base": Base, "SubA": SubA, "SubB": SubB, "Other": Other}
NOTEXC = [int, NotExcBase, KeyboardInterrupt, object, Base("an instance, not a class"), "Base", 42]
SPELL = [tuple, list, set]
DELAYS = [0, 0.25, 3]
METHODS = ["get", "set", "delete", "get_many", "incr"]
# mapping-style access goes through the same retry loop: rc[k] (a successful get that found nothing is a success: it is
# not invoked again, the caller sees KeyError), rc[k] = v, del rc[k]
ITEM_FORMS = ["__getitem__", "__getitem__/miss", "__setitem__", "__delitem__"]


class Falsy:
    """a successful result that is falsy without being None (an empty value, a counter at zero): still the result"""

    def __bool__(self):
        return False

    def __len__(self):
        return 0


class InnerBase:
    """Scripted inner client (the methods live on a base class: wrapped clients are often subclasses)."""

    def __init__(self, outcomes, log):
        self.outcomes = list(outcomes)
        self.log = log
        self.n = 0
        self.objs = {}
        self.expect_args = None
        self.miss = False           # a successful call returns None (a miss)
        self.falsy = False          # every successful call returns a falsy object that is not None
        self.loose_kwargs = False   # item access: the wrapper chooses the keyword arguments itself

    def _do(self, name, args, kwargs):
        self.n += 1
        o = self.outcomes[self.n - 1] if self.n <= len(self.outcomes) else "ok"
        ea, ek = self.expect_args
        same = (len(args) == len(ea) and all(a is b for a, b in zip(args, ea))
                and (self.loose_kwargs or (set(kwargs) == set(ek) and all(kwargs[k] is ek[k] for k in ek))))
        self.log.append({"e": "call", "o": o, "id": self.n, "d": "same-args" if same else "changed-args",
                         "m": name})
        if o == "ok":
            obj = None if self.miss else Falsy() if self.n % 2 == 0 or self.falsy else object()
            self.objs[self.n] = obj
            return obj
        exc = CLS[o](f"attempt {self.n}")
        self.objs[self.n] = exc
        raise exc

    def get(self, *a, **k):
        return self._do("get", a, k)

    def set(self, *a, **k):
        return self._do("set", a, k)

    def delete(self, *a, **k):
        return self._do("delete", a, k)

    def get_many(self, *a, **k):
        return self._do("get_many", a, k)

    def incr(self, *a, **k):
        return self._do("incr", a, k)


class Inner(InnerBase):
    # the mapping protocol of the real clients
    def __setitem__(self, key, value):
        self.set(key, value, noreply=True)

    def __getitem__(self, key):
        v = self.get(key)
        if v is None:
            raise KeyError
        return v

    def __delitem__(self, key):
        self.delete(key, noreply=True)


def execute(RetryingClient, attempts, rf, dnr, outcomes, variant, form=None):
    """Run one behaviour against the real class; returns the recorded trace."""
    spell_rf = SPELL[variant % 3]
    spell_dnr = SPELL[(variant // 3) % 3]
    delay = DELAYS[variant % len(DELAYS)]
    method = METHODS[variant % len(METHODS)]
    notexc = NOTEXC[variant % len(NOTEXC)]

    def conv(names, spell):
        if not names and variant % 2 == 0:
            return None
        return spell([CLS.get(n, notexc) for n in sorted(names)])

    log = []
    # the wrapped client has the mapping protocol itself (Client, PooledClient) or has not (HashClient): rc[k] = v and del rc[k]
    # are retried like any other call either way
    inner = (Inner if (variant // 2) % 2 == 0 or form is None or form.startswith("__getitem__") else InnerBase)(outcomes, log)
    hdr = {"attempts": attempts, "rf": sorted(rf), "dnr": sorted(dnr), "delay": "delay"}
    try:
        rc = RetryingClient(inner, attempts=attempts, retry_delay=delay,
                            retry_for=conv(rf, spell_rf), do_not_retry_for=conv(dnr, spell_dnr))
    except Exception:
        log.append({"e": "ctor", "o": "rejected", "id": 0, "d": "delay", "m": ""})
        return {"h": hdr, "ev": log, "variant": variant}
    log.append({"e": "ctor", "o": "ok", "id": 0, "d": "delay", "m": ""})

    class _L(list):
        def append(self2, x):
            log.append({"e": "sleep", "o": "none", "id": 0, "d": "delay" if x == delay and type(x) is type(delay) else f"other:{x!r}", "m": ""})
    vclock.sleep_log = _L()
    args = (object(), object())
    kwargs = {"noreply": object()}
    if variant % 2 and form is None:
        args, kwargs = (), {"key": object(), "value": object(), "noreply": object()}      # everything by keyword
    inner.expect_args = (args, kwargs)
    if form is not None:
        inner.loose_kwargs = True
        inner.miss = form == "__getitem__/miss"
        inner.falsy = form == "__getitem__" and variant % 2 == 1
        inner.expect_args = ((args[0],), {}) if form != "__setitem__" else (args, {})
    try:
        if form is None:
            res = getattr(rc, method)(*args, **kwargs)
        elif form.startswith("__getitem__"):
            res = rc[args[0]]
        elif form == "__setitem__":
            rc[args[0]] = args[1]
            res = inner.objs.get(inner.n)      # a statement has no result: only that it completed after a success
        else:
            del rc[args[0]]
            res = inner.objs.get(inner.n)
    except Exception as exc:
        ident = [k for k, v in inner.objs.items() if v is exc]
        if form == "__getitem__/miss" and isinstance(exc, KeyError) and not ident and inner.n in inner.objs \
                and inner.objs[inner.n] is None:
            # the successful (empty) answer of the last invocation, handed on as the mapping protocol's KeyError
            log.append({"e": "ret", "o": "ok", "id": inner.n, "d": "delay", "m": form})
        else:
            log.append({"e": "raise", "o": type(exc).__name__, "id": ident[0] if ident else -1, "d": "delay", "m": form or ""})
    else:
        ident = [k for k, v in inner.objs.items() if v is res]
        if form == "__getitem__/miss":
            ident = []          # a miss must surface as KeyError, not as a value
        log.append({"e": "ret", "o": "ok", "id": ident[-1] if ident else -1, "d": "delay", "m": form or ""})
    finally:
        vclock.sleep_log = None
    return {"h": hdr, "ev": log, "variant": variant}


def special_scenarios(RetryingClient):
    """(a) the wrapped method is looked up at call time: after the wrapped client's method has been replaced, the new one is
    invoked; (b) the retry budget belongs to the call: a call made from inside an attempt of another call (re-entrancy on the
    same RetryingClient) has its own."""
    out = []
    for attempts in (2, 3):
        # (a)
        log = []
        inner = Inner(["ok", "Base", "ok"], log)
        rc = RetryingClient(inner, attempts=attempts, retry_delay=0.25)
        hdr = {"attempts": attempts, "rf": [], "dnr": [], "delay": "delay"}

        class _L(list):
            def append(self2, x, log=log):
                log.append({"e": "sleep", "o": "none", "id": 0, "d": "delay" if x == 0.25 else f"other:{x!r}", "m": ""})
        vclock.sleep_log = _L()
        try:
            a1 = (object(),)
            inner.expect_args = (a1, {})
            rc.get(*a1)                       # first call: through the original method
            del log[:]
            log.append({"e": "ctor", "o": "ok", "id": 0, "d": "delay", "m": ""})
            old = inner.get
            seen = []

            def fresh(*a, **k):
                seen.append(1)
                return old(*a, **k)
            inner.get = fresh                 # the application (or a test) replaces the method on the wrapped client
            n0 = inner.n
            try:
                res = rc.get(*a1)
                ident = [k for k, v in inner.objs.items() if v is res]
                log.append({"e": "ret", "o": "ok", "id": ident[0] if ident else -1, "d": "delay", "m": "swap"})
            except Exception as exc:   # noqa
                ident = [k for k, v in inner.objs.items() if v is exc]
                log.append({"e": "raise", "o": type(exc).__name__, "id": ident[0] if ident else -1, "d": "delay", "m": "swap"})
            # every invocation of this second call must have gone through the replacement
            ncalls = inner.n - n0
            for e in log:
                if e["e"] == "call":
                    e["id"] -= n0
                    if len(seen) != ncalls:
                        e["d"] = "stale-method"
                elif e["e"] in ("ret", "raise") and e["id"] > 0:
                    e["id"] -= n0
        finally:
            vclock.sleep_log = None
        out.append({"h": hdr, "ev": list(log), "variant": -1, "expected": None})
        # (b)
        log = []
        nested_log = []
        inner = Inner(["Base", "ok"], log)
        rc = RetryingClient(inner, attempts=2, retry_delay=0.25)
        state = {"done": False}
        a1 = (object(),)
        inner.expect_args = (a1, {})
        orig_do = inner._do

        def reentrant(name, args, kwargs):
            if not state["done"]:
                state["done"] = True
                # a call on the same RetryingClient from inside this attempt: fails once, then succeeds
                sub = Inner(["Other", "ok"], nested_log)
                sub.expect_args = (a1, {})
                saved = rc._client
                rc._client = sub
                try:
                    rc.delete(*a1)
                finally:
                    rc._client = saved
            return orig_do(name, args, kwargs)
        inner._do = reentrant

        class _L2(list):
            def append(self2, x, log=log, nested_log=nested_log):
                (nested_log if state["done"] and not any(e["e"] == "call" for e in log) else log).append(
                    {"e": "sleep", "o": "none", "id": 0, "d": "delay" if x == 0.25 else f"other:{x!r}", "m": ""})
        vclock.sleep_log = _L2()
        log.append({"e": "ctor", "o": "ok", "id": 0, "d": "delay", "m": ""})
        try:
            try:
                res = rc.get(*a1)
                ident = [k for k, v in inner.objs.items() if v is res]
                log.append({"e": "ret", "o": "ok", "id": ident[0] if ident else -1, "d": "delay", "m": "reentrant"})
            except Exception as exc:   # noqa
                ident = [k for k, v in inner.objs.items() if v is exc]
                log.append({"e": "raise", "o": type(exc).__name__, "id": ident[0] if ident else -1, "d": "delay", "m": "reentrant"})
        finally:
            vclock.sleep_log = None
        out.append({"h": {"attempts": 2, "rf": [], "dnr": [], "delay": "delay"}, "ev": list(log), "variant": -2, "expected": None})
    return out


def strip(ev):
    return [{k: e[k] for k in ("e", "o", "id", "d")} for e in ev]


def main(tier, rep):
    vclock.install()
    common.import_repo()
    from pymemcache.client.retrying import RetryingClient

    maxatt = 3 if tier == "quick" else 5
    cfg = f"""SPECIFICATION Spec
CONSTANTS
  MaxAttempts = {maxatt}
  Export = TRUE
INVARIANT MonitorOK
INVARIANT Complete
INVARIANT AtMostAttempts
CHECK_DEADLOCK FALSE
"""
    r = tlc.run("Retrying", cfg_text=cfg, workers=1, timeout=3000)
    rep.set("checker_cmd", r.cmd)
    if r.error:
        raise common.MachineryError(r.error)
    if not r.ok:
        # the as-coded model itself violates the contract: design-level counterexample
        rep.violation("C17/model/" + ",".join(r.invariants_violated),
                      "as-coded model of _retry violates the contract: " + ",".join(r.invariants_violated),
                      tlc.first_error_trace(r))
    rep.set("states", r.distinct)
    rep.set("transitions", r.generated)
    behaviours = r.exported("EXP")
    finals = {}
    for b in behaviours:
        finals[b["final"]] = finals.get(b["final"], 0) + 1
    for need in ("returned", "raised", "rejected"):
        if not finals.get(need):
            raise common.MachineryError(f"vacuous export: no behaviour ends in {need}")
    if not any(any(e["e"] == "sleep" for e in b["hist"]) for b in behaviours):
        raise common.MachineryError("vacuous export: no behaviour retries")
    rep.set("behaviours_exported", len(behaviours))
    rep.set("behaviours_by_final", finals)

    # ---- spec -> code: replay every behaviour ---------------------------------------
    traces = []
    nvariants = 1 if tier == "quick" else 3
    distinct = set()
    for i, b in enumerate(behaviours):
        outcomes = [e["o"] for e in b["hist"] if e["e"] == "call"]
        for v in range(nvariants):
            variant = (i * 7 + v * 4 + common.seed()) % 90
            t = execute(RetryingClient, b["attempts"], b["rf"], b["dnr"], outcomes, variant)
            t["expected"] = b["hist"]
            traces.append(t)
        if b["final"] != "rejected" and (tier != "quick" or i % 3 == common.seed() % 3):
            form = ITEM_FORMS[(i // 3 + common.seed()) % len(ITEM_FORMS)]
            t = execute(RetryingClient, b["attempts"], b["rf"], b["dnr"], outcomes, (i * 7 + common.seed()) % 90, form=form)
            t["expected"] = b["hist"]
            traces.append(t)
        if outcomes:
            distinct.add((b["attempts"], tuple(b["rf"]), tuple(b["dnr"]), tuple(outcomes)))
    # extra configurations outside the model's enumeration: large attempts, negative attempts
    extra = []
    for att, outs in [(-1, []), (7, ["Base"] * 7), (7, ["SubA"] * 6 + ["ok"]), (10, ["Other"] * 10),
                      (6, ["SubB", "SubA", "Base", "Other", "SubA", "ok"])]:
        for rf, dnr in [((), ()), (("Base",), ("Other",)), (("Base",), ("SubA",)), (("Other", "SubB"), ())]:
            t = execute(RetryingClient, att, list(rf), list(dnr), outs, len(extra))
            t["expected"] = None
            extra.append(t)
    traces += extra

    traces += special_scenarios(RetryingClient)
    tl = [{"h": t["h"], "ev": strip(t["ev"])} for t in traces]
    acc, rej, st, tr = tlc.validate_traces("RetryingTrace", tl)
    rep.set("traces_validated_against_impl", len(tl))
    rep.set("trace_states", st)
    for i, pos, clauses in ((i, p, c) for i, lst in sorted(rej.items()) for p, c in lst[:1]):
        t = traces[i]
        ev = t["ev"][pos - 1] if pos <= len(t["ev"]) else {"e": "<end>"}
        rep.violation(f"C17/{ev['e']}/{clauses}",
                      f"RetryingClient execution rejected by the contract at event {pos} ({ev}): clauses {clauses}",
                      {"header": t["h"], "events": t["ev"], "rejected_at": pos, "clauses": clauses,
                       "variant": t["variant"]})
    for i, t in enumerate(traces):
        if t["expected"] is not None and i in acc and strip(t["ev"]) != t["expected"]:
            rep.model_drift("execution differs from the as-coded model but satisfies the contract",
                            {"header": t["h"], "events": strip(t["ev"]), "model": t["expected"]})
    rep.set("evaluations", len(traces))
    rep.set("distinct_nontrivial", len(distinct))
    rep.set("rule", "every (attempts, retry_for, do_not_retry_for, outcome sequence) of the bounded model, "
                    "enumerated by TLC; non-trivial = the configuration is accepted and at least one invocation happens; "
                    "distinct by that 4-tuple")
    rep.set("exhaustive", True)
    rep.set("bounds", {"attempts": f"0..{maxatt}", "classes": sorted(CLS) + ["NotExc"],
                       "spellings": "tuple/list/set/None", "delays": DELAYS})
    for t in traces[len(traces) // 2: len(traces) // 2 + 3]:
        rep.sample({"header": t["h"], "events": strip(t["ev"])})
    rep.assumptions += ["exception hierarchy of 4 classes (base, two subclasses, unrelated) stands for all hierarchies",
                        "TLC 1.8.0, CommunityModules Json/IOUtils"]
