"""C19 -- ElastiCache auto-discovery: rotation equals the advertised node list.

TLC explores the as-coded model spec/AwsDiscovery.tla (reconfigure_nodes as fixed, interleaved with
traffic, failover evictions and revivals, over every non-empty node list of a 3-node (thorough 4)
universe and ERROR replies) against the contract monitor spec/DiscoveryRule.tla and exports every
behaviour.  Each is replayed into the real AWSElastiCacheHashClient over a multi-server fake socket
module whose configuration endpoint serves 'config get cluster' through the real socket reader, with
the reply segmented (one piece, single bytes, cut inside the 7-byte end token, cut before it);
after every step a key corpus is routed with real commands.  TLC validates every recorded execution:
rotation = advertised list (IP or host name per use_vpc, advertised ports), every key goes to an
advertised node, connections to replaced nodes are closed, ERROR surfaces as a memcached error."""
import random

from lib import common, fakesock, refserver, tlc, vclock

PROP = "C19"
CFG_HOST = "cluster.abcxyz.cfg.use1.cache.amazonaws.com"


SHARED_ADDR = False     # nodes 2k-1 and 2k then live on one host (same fqdn and ip), on different ports


def node(i):
    a = (i + 1) // 2 if SHARED_ADDR else i
    # (every third node of the universe has an IPv6 address: dual-stack clusters advertise those)
    ip = "2600:1f18:4a:7d00::%x" % a if a % 3 == 0 else "10.0.1.%d" % a
    return {"fqdn": "node%d.abcxyz.use1.cache.amazonaws.com" % a, "ip": ip, "port": 11211 + (i % 2)}


def hostport(name):
    if isinstance(name, tuple):
        return {"host": name[0], "port": int(name[1])}
    h, p = name.rsplit(":", 1)
    return {"host": h, "port": int(p)}


SEGS = ["all", "bytes", "tok-inside", "tok-before", (5, 1, 1, 40, 2), "aftercr", "beforelf", (1,), (4,), (6,), (7,)]


class World:
    def __init__(self, vpc, universe, seed):
        self.vpc = vpc
        self.net = fakesock.FakeNet()
        self.adv = []
        self.error = None
        self.cfg = self.net.add_server((CFG_HOST, 11211))
        self.cfg.cluster = self.payload
        self.nodes = {}
        for i in range(1, universe + 1):
            n = node(i)
            srv = refserver.RefServer(name="node%d" % i)
            # reachable under both spellings
            self.net.servers[(n["fqdn"], n["port"])] = srv
            self.net.servers[(n["ip"], n["port"])] = srv
            self.nodes[i] = srv
        self.calls = 0
        self.blank_ip = seed % 3 == 0
        self.rnd = random.Random(seed)

    def payload(self):
        def entry(i, n):
            # without VPC addressing the IP field is not used; ElastiCache may leave it empty ("fqdn||port")
            ip = "" if (not self.vpc and self.blank_ip and i % 2 == 0) else n["ip"]
            return "%s|%s|%d" % (n["fqdn"], ip, n["port"])
        return ("%d\n" % (len(self.adv) + 1) + " ".join(entry(i, n) for i, n in enumerate(self.adv)) + "\n").encode()

    def seg_for(self, kind):
        body = b"CONFIG cluster 0 %d\r\n" % len(self.payload()) + self.payload() + b"\r\nEND\r\n"
        n = len(body)
        if kind == "tok-inside":
            return (n - 4, 4)
        if kind == "tok-before":
            return (n - 7, 7)
        return kind

    def begin(self, seg="all"):
        self.calls += 1
        self.net.begin_call(self.calls, None, self.seg_for(seg))

    def open_nodes(self):
        out = []
        for s in self.net.open_sockets():
            if s.server_key and s.server_key[0] != CFG_HOST and s.state == "connected":
                out.append(hostport(s.server_key))
        return out


def replay(hist, vpc, universe, variant, pooling):
    from pymemcache.client.ext.aws_ec_client import AWSElastiCacheHashClient
    from pymemcache.exceptions import MemcacheError
    vclock.set_now(7_000_000)
    w = World(vpc, universe, variant)
    evs = []
    client = [None]

    def discover(adv, error):
        if adv is not None:
            w.adv = [node(i) for i in adv]
        evs.append({"e": "advertise", "nodes": w.adv, "error": bool(error), "malformed": error == "empty"})
        if error == "token":
            # an error line inside a well-terminated reply: the reader returns it and the client must raise
            w.cfg.cluster = lambda: ("raw", b"ERROR\n\r\nEND\r\n")
            w.begin("all")
        elif error == "empty":
            # a terminated reply with nothing in it
            w.cfg.cluster = lambda: ("raw", b"\n\r\nEND\r\n")
            w.begin("all")
        elif error == "cut":
            # the endpoint dies in the middle of a well-formed reply: what arrived is not a configuration
            w.cfg.cluster = w.payload
            full = len(b"CONFIG cluster 0 %d\r\n" % len(w.payload()) + w.payload() + b"\r\nEND\r\n")
            cut = [full - 3, full // 2, full - 9, 25][(variant + len(evs)) % 4]
            w.calls += 1
            w.net.begin_call(w.calls, {("reply", 0): ("trunc", max(1, cut), True)}, "all")
        elif error:
            # a server that does not know the command answers ERROR and (here) closes the connection
            w.cfg.cluster = None
            # (should the client come back for a second connection during this lookup, the endpoint is gone by then)
            w.net.begin_call(0, {("reply", 0): ("trunc", 7, True), ("connect", 2): "refused"} if error == "close" else None, "all")
            w.calls += 1
        else:
            w.cfg.cluster = w.payload
            w.begin(SEGS[(variant + len(evs)) % len(SEGS)])
        try:
            if client[0] is None:
                # (one execution in four talks TLS: the address kind that use_vpc selects does not depend on that)
                tls = {"tls_context": w.net.tls_context()} if variant % 4 == 3 else {}
                client[0] = AWSElastiCacheHashClient(CFG_HOST + ":11211", socket_module=w.net, use_vpc=vpc, retry_attempts=0,
                                                     retry_timeout=1, dead_timeout=5, use_pooling=pooling, timeout=2,
                                                     connect_timeout=2, default_noreply=False, **tls)
            else:
                client[0].reconfigure_nodes()
            outcome = "ok"
        except MemcacheError:
            outcome = "memcache-error"
        except BaseException as e:   # noqa
            outcome = "other:" + type(e).__name__
        c = client[0]
        evs.append({"e": "discover", "outcome": outcome, "rot": [hostport(n) for n in c.hasher.nodes] if c else [],
                    "open": w.open_nodes(),
                    "cfgopen": sum(1 for s_ in w.net.open_sockets() if s_.server_key and s_.server_key[0] == CFG_HOST and s_.state == "connected")})

    def key_for(i):
        c = client[0]
        name = ("%s:%d" % ((node(i)["ip"] if vpc else node(i)["fqdn"]), node(i)["port"]))
        for t in range(400):
            k = "t%d-%d" % (i, t)
            if c.hasher.get_node(k) == name:
                return k
        return None

    def route(key):
        c = client[0]
        w.begin("all")
        marks = {i: len(s.log) for i, s in w.nodes.items()}
        try:
            c.get(key)
        except Exception as e:   # noqa
            evs.append({"e": "route", "outcome": "exc:" + type(e).__name__, "node": {"host": "", "port": 0}})
            return
        hit = [i for i, s in w.nodes.items() if len(s.log) > marks[i]]
        if len(hit) != 1:
            evs.append({"e": "route", "outcome": "exc:contacted-%d-nodes" % len(hit), "node": {"host": "", "port": 0}})
            return
        n = node(hit[0])
        evs.append({"e": "route", "outcome": "ok", "node": {"host": n["ip"] if vpc else n["fqdn"], "port": n["port"]}})

    for step in hist:
        c = client[0]
        if step[0] == "reconf":
            discover(step[1], None)
            if client[0] is not None:
                for k in ["corpus-%d" % j for j in range(12)]:
                    route(k)
        elif step[0] == "error":
            # for the cut reply something must be advertised (the nodes in force stay in force)
            if (variant + len(evs)) % 2 and w.adv:
                discover(None, "cut")
            else:
                discover([], "close")
        elif step[0] == "error-silent":
            discover([], "silent")
        elif step[0] == "error-empty":
            discover(None if w.adv else [], "empty")
        elif step[0] == "error-token":
            discover([], "token")
        elif c is None:
            continue
        elif step[0] == "peerclose":
            # the node goes away for good and tears its connections down (the client is idle: it notices nothing)
            for sk in w.net.open_sockets():
                if sk.conn is not None and sk.conn.server is w.nodes[step[1]]:
                    sk.conn.peer_closed = True
        elif step[0] == "handadd":
            # the application adds a node by hand (port as an int), under the spelling the client itself would use
            n_ = node(step[1])
            c.add_server((n_["ip"] if vpc else n_["fqdn"]), n_["port"])
        elif step[0] == "traffic":
            k = key_for(step[1])
            if k:
                route(k)
        elif step[0] == "evict":
            k = key_for(step[1])
            if k:
                w.nodes[step[1]].down = True
                # an already open connection to the node is reset, a new one is refused
                w.calls += 1
                w.net.begin_call(w.calls, {("sendall", 1): "reset"}, "all")
                try:
                    c.get(k)
                except Exception:   # noqa -- the failing server's own error
                    n = node(step[1])
                    evs.append({"e": "fault", "node": {"host": n["ip"] if vpc else n["fqdn"], "port": n["port"]}})
                w.nodes[step[1]].down = False
        elif step[0] == "revive":
            vclock.advance(11)
            route("revive-probe")
    if client[0] is not None:
        for k in ["final-%d" % j for j in range(20)]:
            route(k)
    return {"h": {"vpc": vpc, "maxrej": 4}, "ev": evs, "hist": hist, "variant": variant}


def main(tier, rep):
    vclock.install()
    common.import_repo()
    rnd = random.Random(common.seed())
    universe, steps = (3, 4) if tier == "quick" else (4, 4)
    traces = []
    # the bookkeeping invariant is inductive and, from EVERY state that satisfies it, a reconfiguration establishes the contract
    for vpc in (True, False):
        cfg_any = f"""SPECIFICATION SpecAny
CONSTANTS
  Universe = {3 if tier == "quick" else 4}
  MaxSteps = 2
  Export = FALSE
  Vpc = {'TRUE' if vpc else 'FALSE'}
  Fixed = TRUE
VIEW view
INVARIANT MonitorOK
INVARIANT SysInv
INVARIANT EmptyRotationOnlyByFaults
CHECK_DEADLOCK FALSE
"""
        r = tlc.run("AwsDiscovery", cfg_text=cfg_any, cfg="AwsAny_gen", workers=16, timeout=3000)
        if r.error:
            raise common.MachineryError(r.error)
        if not r.ok:
            rep.violation("C19/model/any-state/" + ",".join(r.invariants_violated),
                          "from some state satisfying the bookkeeping invariant the as-coded reconfiguration breaks the contract or the invariant",
                          tlc.first_error_trace(r))
        rep.add("states_inductive_check", r.distinct)
    for vpc in (True, False):
        cfg = f"""SPECIFICATION Spec
CONSTANTS
  Universe = {universe}
  MaxSteps = {steps}
  Export = TRUE
  Vpc = {'TRUE' if vpc else 'FALSE'}
  Fixed = TRUE
VIEW view
INVARIANT MonitorOK
INVARIANT EmptyRotationOnlyByFaults
CHECK_DEADLOCK FALSE
"""
        r = tlc.run("AwsDiscovery", cfg_text=cfg, workers=16, timeout=3000)
        if r.error:
            raise common.MachineryError(r.error)
        if not r.ok:
            rep.violation("C19/model/" + ",".join(r.invariants_violated), "as-coded discovery model violates the contract",
                          tlc.first_error_trace(r))
        rep.add("states", r.distinct)
        rep.add("transitions", r.generated)
        rep.set("checker_cmd", r.cmd)
        beh = [b["hist"] for b in r.json_lines("EXP")]
        rep.add("model_behaviours_exported", len(beh))
        cap = 700 if tier == "quick" else 30000
        if len(beh) > cap:
            beh = rnd.sample(beh, cap)
        for i, h in enumerate(beh):
            traces.append(replay(h, vpc, universe, i, pooling=False))
    nmodel = len(traces)
    # larger clusters: node lists of 1..6, scale-up / scale-down / replace sequences
    for i in range(60 if tier == "quick" else 1500):
        hist = []
        cur = rnd.sample(range(1, 7), rnd.randrange(1, 7))
        for _ in range(rnd.randrange(2, 5)):
            hist.append(["reconf", list(cur)])
            if rnd.random() < 0.5:
                hist.append(["evict", rnd.choice(cur)])
            if rnd.random() < 0.3:
                hist.append(["revive", 0])
            r_ = rnd.random()
            pool = [x for x in range(1, 7) if x not in cur]
            if r_ < 0.4 and len(cur) > 1:
                for _ in range(rnd.randrange(1, len(cur))):
                    cur.remove(rnd.choice(cur))
            elif r_ < 0.7 and pool:
                cur += rnd.sample(pool, rnd.randrange(1, len(pool) + 1))
            elif pool:
                cur = rnd.sample(pool, rnd.randrange(1, len(pool) + 1))
            rnd.shuffle(cur)
        if i % 10 == 5:
            hist.insert(rnd.randrange(1, len(hist) + 1), ["error-token"])
        if i % 10 == 7:
            hist.insert(rnd.randrange(1, len(hist) + 1), ["error-empty"])
        if i % 10 == 0:
            # a plain memcached answers an unknown command with ERROR and keeps the connection open
            hist.insert(rnd.randrange(1, len(hist) + 1), ["error-silent"])
        global SHARED_ADDR
        SHARED_ADDR = i % 3 == 2
        try:
            traces.append(replay(hist, rnd.random() < 0.5, 6, i, pooling=False))
        finally:
            SHARED_ADDR = False
    # targeted: a node is evicted by failover, the cluster is scaled in without it, time passes beyond dead_timeout,
    # traffic goes on -- the decommissioned node must not come back through the dead-server check
    for vpc in (True, False):
        for (a, b) in (([1, 2, 3], [1, 2]), ([1, 2, 3, 4], [2, 4]), ([2, 1], [1]), ([1, 2, 3], [3])):
            for victim in a:
                if victim in b:
                    continue
                hist = [["reconf", a], ["evict", victim], ["reconf", b], ["revive", 0], ["traffic", b[0]], ["revive", 0], ["reconf", b],
                        ["revive", 0]]
                traces.append(replay(hist, vpc, 6, len(traces), pooling=False))
    # a node that has torn down its connections is then dropped from the cluster: its connection is closed like any other
    for vpc in (True, False):
        for (a, x, b) in (([1, 2, 3], 3, [1, 2]), ([1, 2], 1, [2, 3]), ([2], 2, [1])):
            traces.append(replay([["reconf", a], ["traffic", x], ["peerclose", x], ["reconf", b], ["reconf", b]], vpc, 6, len(traces), pooling=False))
    # a node evicted by failover while the advertised list stays the same: the next reconfiguration puts it back
    for vpc in (True, False):
        for a in ([1, 2, 3], [2, 1], [4]):
            for victim in a[:2]:
                traces.append(replay([["reconf", a], ["evict", victim], ["reconf", a], ["traffic", victim], ["reconf", list(reversed(a))]],
                                     vpc, 6, len(traces), pooling=False))
    # a node added by hand and then advertised: it stays in the rotation like any other advertised node
    for vpc in (True, False):
        for (a, x, b) in (([1, 2], 3, [1, 2, 3]), ([1], 2, [2]), ([2, 3], 1, [1, 2, 3]), ([1, 2, 3], 4, [4, 2])):
            traces.append(replay([["reconf", a], ["handadd", x], ["reconf", b], ["traffic", x], ["reconf", b]], vpc, 6, len(traces), pooling=False))
    acc, rej, st, _ = tlc.validate_traces("DiscoveryTrace", [{"h": t["h"], "ev": t["ev"]} for t in traces], chunk=3000)
    rep.set("traces_validated_against_impl", len(traces))
    rep.set("trace_states", st)
    for i, lst in sorted(rej.items()):
        t = traces[i]
        pos, clauses = lst[0]
        cl = ",".join(sorted(x.strip().strip('"') for x in clauses.strip("{}").split(",")))
        ev = t["ev"][pos - 1]
        rep.violation(f"C19/{ev['e']}/{cl}/{ev.get('outcome')}", f"history {t['hist']}: event {pos} {ev} rejected: {cl}",
                      {"header": t["h"], "history": t["hist"], "events": t["ev"][max(0, pos - 6): pos + 1]})
    rep.set("evaluations", len(traces))
    rep.set("distinct_nontrivial", len({(str(t["hist"]), t["h"]["vpc"]) for t in traces if sum(1 for s in t["hist"] if s[0] == "reconf") > 1}))
    rep.set("rule", "one execution per history of advertise/reconfigure/traffic/evict/revive steps; non-trivial = at least two reconfigurations; distinct by (history, use_vpc)")
    rep.sample({"history": traces[5]["hist"], "events": traces[5]["ev"][:3]})
    rep.sample({"history": traces[-1]["hist"]})
    rep.assumptions += ["an endpoint that does not know the command answers ERROR and closes the connection (see known finding for a silent endpoint)",
                        "failover eviction is provoked with retry_attempts=0 and a refused connection"]
