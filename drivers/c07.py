"""C07 -- ignore_exc turns every read failure into a cache miss.
All read operations x three client classes (+ pooled hash) x every fault plan of C01 (plus failing
deserialiser and server down) with non-None defaults passed by keyword; each failing result is
compared with what the same call returns on an empty healthy server (the miss result); follow-up
reads run both inside and after HashClient's retry window.  Oracle: C07 clauses of ConnRule."""
from lib import common, vclock
from drivers import connlib as L

PROP = "C07"
READS = [(op, (None,)) for op in ("get", "gets", "get_many", "gets_many", "gat", "gats")]


USABLE = {"C06-next-call-after-a-failure-works", "C06-failed-socket-closed-by-the-end-of-the-call",
          "C06-failed-socket-never-used-again"}


def relevant(c):
    # "afterwards the client is still usable": the swallowed failure must not leave a dead or desynchronised connection
    return c.startswith("C07-") or c.startswith("C01-") or c in USABLE


def main(tier, rep):
    vclock.install()
    common.import_repo()
    L.USE_DEFAULTS = True
    try:
        progs = L.gen_fault_programs(L.KINDS, READS, tier, ignore_exc=True, seed=common.seed(), quick_stride=1)
        traces = []
        for cfg, steps in progs:
            traces.append(L.run_program(cfg, steps, miss=L.miss_result(cfg)))
            # the same fault followed *immediately* (inside any retry window) by every read op
            faulted = [s for s in steps if s[0] == "call" and s[3]]
            if faulted and len(traces) % (2 if tier == "quick" else 1) == 0:
                st2 = [s for s in steps if s[0] == "call"][: steps.index(faulted[0]) + 1]
                st2 = [s for s in steps[: steps.index(faulted[0]) + 1]]
                for op, _ in READS:
                    st2.append(("call", op, None, None, "all"))
                traces.append(L.run_program(cfg, st2, miss=L.miss_result(cfg)))
        # server down from the start / all servers down
        for kind in L.KINDS:
            cfg = L.Cfg(kind=kind, ignore_exc=True)
            st = L.Stack(cfg)
            st.srv.down = True
            for rounds in range(3):
                for op, _ in READS:
                    st.call(op, None, None, "all", L.miss_result(cfg))
                st.tick(1)
            st.srv.down = False
            st.tick(100)
            for op, _ in READS:
                st.call(op, None, None, "all", L.miss_result(cfg))
            tr = st.finish()
            tr["steps"] = [("call", "server-down-then-up", None, "connect=refused(natural)", "")]
            tr["cfg"] = dict(cfg.__dict__)
            traces.append(tr)
        # a HashClient that has given up on its server(s) (retry_attempts exhausted: nothing left in the rotation): every read
        # is a miss, nothing is raised; and an idle-expired pooled connection to a server that has died in the meantime
        giveup = []
        # (TCP and UNIX-socket servers; batches of three keys and of one; then, after dead_timeout, the server is tried again)
        for kind in ("hash", "hashpooled"):
            for ra in (0, 1):
                for unix in (False, True):
                    for nkeys in (3, 1):
                        cfg = L.Cfg(kind=kind, ignore_exc=True, hash_ra=ra, unix=unix)
                        steps = []
                        for i in range(ra + 2):
                            steps += [("call", "get", None, {("connect", 1): "refused"}, "all"), ("tick", 1)]
                        for op, _ in READS:
                            steps.append(("call", op, None, None, "all"))
                        steps.append(("tick", 61))
                        for op, _ in READS:
                            steps.append(("call", op, None, None, "bytes"))
                        L.NKEYS = nkeys
                        try:
                            giveup.append(L.run_program(cfg, steps, miss=L.miss_result(cfg)))
                        finally:
                            L.NKEYS = 3
        for kind in ("pooled", "hashpooled"):
            for op, _ in READS:
                for fault in ({("sendall", 1): "reset"}, {("sendall", 1): "timeout"}, {("close", 1): "oserror"}):
                    cfg = L.Cfg(kind=kind, ignore_exc=True, idle=3, max_pool=1)
                    steps = [("call", "get", None, None, "all"), ("tick", 5), ("call", op, None, fault, "all"), ("tick", 1),
                             ("call", "get", None, None, "all")]
                    traces.append(L.run_program(cfg, steps, miss=L.miss_result(cfg)))
        # two faults in one call: the pooled connection turns out to be dead (end of stream) and the server cannot be reached again
        for kind in ("pooled", "hashpooled", "client"):
            for op, _ in READS:
                for second in ({("connect", 1): "refused"}, {("connect", 1): "timeout"}, {("sendall", 2): "reset"}):
                    cfg = L.Cfg(kind=kind, ignore_exc=True, max_pool=1)
                    steps = [("call", "get", None, None, "all"), ("tick", 1),
                             ("call", op, None, {("recv", 1): "eof", **second}, "all"), ("tick", 1), ("call", "get", None, None, "all")]
                    traces.append(L.run_program(cfg, steps, miss=L.miss_result(cfg)))
        # failing deserialiser
        for kind in L.KINDS:
            for op, _ in READS:
                cfg = L.Cfg(kind=kind, ignore_exc=True)
                st = L.Stack(cfg)
                class BadSerde:
                    def serialize(self, key, value):
                        return value, 0
                    def deserialize(self, key, value, flags):
                        raise ValueError("cannot deserialise")
                targets = [st.client] + list(getattr(st.client, "clients", {}).values())
                for t in targets:
                    t.serde = BadSerde()
                    if hasattr(t, "default_kwargs"):
                        t.default_kwargs["serde"] = t.serde
                st.call(op, None, {("deser", 1): "raise", ("reply", 99): "error"}, "all", L.miss_result(cfg))
                st.call(op, None, {("deser", 1): "raise", ("reply", 99): "error"}, "bytes", L.miss_result(cfg))
                tr = st.finish()
                tr["steps"] = [("call", op, None, "deserialiser raises", "")]
                tr["cfg"] = dict(cfg.__dict__)
                traces.append(tr)
        # the library's own serializers on stored items they cannot decode: every read is a miss
        # (an empty / junk payload marked compressed, a non-numeric integer, text that is not UTF-8; a pickle that
        # does not load is NOT among them: python_memcache_deserializer answers None for it by design -- the deserializer did not fail)
        from lib import refserver
        from pymemcache import serde as _serde
        BAD_ITEMS = [(b"", _serde.FLAG_COMPRESSED), (b"not zlib at all", _serde.FLAG_COMPRESSED),
                     (b"", _serde.FLAG_COMPRESSED | _serde.FLAG_PICKLE), 
                     (b"12x", _serde.FLAG_INTEGER), (b"", _serde.FLAG_INTEGER), (b"", _serde.FLAG_LONG), (b"\xff\xfe", _serde.FLAG_TEXT)]
        for kind in L.KINDS:
            for op, _ in READS:
                for bi, (payload, flags) in enumerate(BAD_ITEMS):
                    cfg = L.Cfg(kind=kind, ignore_exc=True)
                    st = L.Stack(cfg)
                    sd = _serde.CompressedSerde() if bi % 2 == 0 or flags & _serde.FLAG_COMPRESSED else _serde.pickle_serde
                    targets = [st.client] + list(getattr(st.client, "clients", {}).values())
                    for t in targets:
                        t.serde = sd
                        if hasattr(t, "default_kwargs"):
                            t.default_kwargs["serde"] = t.serde
                    for k in list(st.srv.store):
                        st.srv.store[k] = refserver.Item(payload, flags, 0, st.srv._next_cas())
                    st.call(op, None, {("deser", 1): "raise", ("reply", 99): "error"}, "all", L.miss_result(cfg))
                    st.call(op, None, {("deser", 1): "raise", ("reply", 99): "error"}, "bytes", L.miss_result(cfg))
                    tr = st.finish()
                    tr["steps"] = [("call", op, None, "stored item undecodable: %r flags=%d" % (payload, flags), "")]
                    tr["cfg"] = dict(cfg.__dict__)
                    traces.append(tr)
    finally:
        L.USE_DEFAULTS = False
    L.validate(rep, traces, relevant, PROP)
    L.validate(rep, giveup, lambda c: c.startswith("C07-"), PROP)
    from drivers import connmodel
    connmodel.design_and_replay(rep, tier, PROP, relevant)
    rep.set("evaluations", len(traces))
    rep.set("distinct_nontrivial", len({(t["h"]["kind"],) + tuple((s[1], s[2], s[3]) for s in t["steps"] if s[0] == "call" and s[3]) for t in traces}))
    rep.set("rule", "one execution per (stack, warm/fresh, read op, single-fault plan | server down | failing deserialiser, follow-up reads inside/after the retry window); "
                    "non-trivial = a failure is injected; distinct by (stack, op, plan)")
    for t in traces[5::max(1, len(traces) // 4)][:4]:
        rep.sample({"stack": t["h"]["kind"], "program": t["steps"]})
    rep.assumptions += ["defaults are passed by keyword", "miss result = result of the same call on an empty healthy server of the same stack"]
