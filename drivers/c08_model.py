"""C08 (A): TLC over the statement-level pool model (all interleavings) + non-vacuity (lock removed => violation)."""
from lib import common, tlc


def cfg(nt, ms, programs, withlock=True):
    return f"""SPECIFICATION Spec
CONSTANTS
  NT = {nt}
  MaxSize = {ms}
  Programs <- {programs}
  WithLock = {'TRUE' if withlock else 'FALSE'}
INVARIANT MonitorOK
CHECK_DEADLOCK TRUE
"""


def check(rep, tier):
    runs = [(2, 1, "Programs2"), (2, 2, "Programs2"), (3, 2, "Programs3")]
    if tier == "thorough":
        runs.append((3, 1, "Programs3"))
    for nt, ms, pr in runs:
        r = tlc.run("PoolThreadsMC", cfg_text=cfg(nt, ms, pr), workers=16, timeout=3000)
        if r.error:
            raise common.MachineryError(r.error)
        if not r.ok:
            rep.violation(f"C08/model/nt{nt}-max{ms}/" + ",".join(r.invariants_violated) + ("/deadlock" if r.deadlock else ""),
                          "statement-level pool model violates the contract", tlc.first_error_trace(r))
        rep.add("states", r.distinct)
        rep.add("transitions", r.generated)
        rep.set("checker_cmd", r.cmd)
    # non-vacuity: without the lock the same model must violate the contract
    r = tlc.run("PoolThreadsMC", cfg_text=cfg(2, 1, "Programs2", withlock=False), workers=8, timeout=600)
    if r.error:
        raise common.MachineryError(r.error)
    if r.ok:
        raise common.MachineryError("vacuous pool contract: the lock-free model is accepted")
    rep.set("lock_free_model_rejected", True)
