"""C08 (A): TLC over the statement-level pool model (all interleavings) + non-vacuity (lock removed => violation)."""
from lib import common, tlc


def cfg(nt, ms, programs, withlock=True):
    # the facts the inductive invariant of spec/PoolInd.tla states, checked on the bounded model too (with the lock)
    shape = "INVARIANT IndShape\n" if withlock else ""
    return f"""SPECIFICATION Spec
CONSTANTS
  NT = {nt}
  MaxSize = {ms}
  Programs <- {programs}
  WithLock = {'TRUE' if withlock else 'FALSE'}
INVARIANT MonitorOK
{shape}CHECK_DEADLOCK TRUE
"""


def check(rep, tier):
    runs = [(2, 1, "Programs2"), (2, 2, "Programs2"), (3, 2, "Programs3")]
    if tier == "thorough":
        runs.append((3, 1, "Programs3"))
    for nt, ms, pr in runs:
        r = tlc.run("PoolThreadsMC", cfg_text=cfg(nt, ms, pr), workers=16, timeout=3000)
        if r.error:
            raise common.MachineryError(r.error)
        if not r.ok:
            rep.violation(f"C08/model/nt{nt}-max{ms}/" + ",".join(r.invariants_violated) + ("/deadlock" if r.deadlock else ""),
                          "statement-level pool model violates the contract", tlc.first_error_trace(r))
        rep.add("states", r.distinct)
        rep.add("transitions", r.generated)
        rep.set("checker_cmd", r.cmd)
    # non-vacuity: without the lock the same model must violate the contract
    r = tlc.run("PoolThreadsMC", cfg_text=cfg(2, 1, "Programs2", withlock=False), workers=8, timeout=600)
    if r.error:
        raise common.MachineryError(r.error)
    if r.ok:
        raise common.MachineryError("vacuous pool contract: the lock-free model is accepted")
    rep.set("lock_free_model_rejected", True)


def inductive_run(tier):
    """spec/PoolInd.tla: the same statement-level steps with threads that go on forever; Apalache checks that IndInv is inductive
    (Init => IndInv, IndInv /\\ Next => IndInv'), so the safety clauses hold in executions of any length."""
    from lib import apalache
    out = []
    for nt, ms in ([(3, 2)] if tier == "quick" else [(3, 2), (3, 1), (4, 2)]):
        defs = {"NT": nt, "MaxSize": ms}
        base, d0 = apalache.check("PoolInd", "IndInv", length=0, defs=defs, timeout=600, init="Init", tag="base%d%d" % (nt, ms))
        step, d1 = apalache.check("PoolInd", "IndInv", length=1, defs=defs, timeout=2400, init="IndInit", tag="step%d%d" % (nt, ms))
        out.append((nt, ms, base, d0, step, d1))
    return out


def inductive_report(rep, results):
    summary = {}
    for nt, ms, base, d0, step, d1 in results:
        summary["nt%d-max%d" % (nt, ms)] = {"base": base, "step": step}
        for name, v, d in (("base", base, d0), ("step", step, d1)):
            if v == "violated":
                rep.violation(f"C08/model/apalache/PoolInd/{name}/nt{nt}-max{ms}",
                              "the inductive invariant of the unbounded pool model fails (%s case)" % name, {"counterexample": d})
            elif v != "ok":
                rep.assumptions.append("Apalache %s case skipped for NT=%d MaxSize=%d (%s): C08 then rests on TLC's bounded programs"
                                       % (name, nt, ms, d[:100].replace("\n", " ")))
    rep.set("apalache_inductive_invariant", summary)
