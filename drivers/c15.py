"""C15 -- serializers round-trip every value with its exact type.

TLC enumerates the grid of spec/Serde.tla (22 value classes x size relative to the compression
threshold x compressibility x pickle protocol 0..5 x min_compress_len {0,1,10,400} x codec {zlib,
bz2, lzma, identity} x plain/compressed serde), checks the decision model of serde.py (flag algebra,
threshold, keep-smaller rule) against the contract monitor spec/SerdeRule.tla and prints every grid
point.  The harness concretises grid points with seeded random values of each class (ints up to
thousands of digits, incompressible bytes, sets / frozensets / complex / bytearray / range, subclasses
of the native types, nested containers), runs serialize + deserialize of PickleSerde / CompressedSerde
(and the LegacyWrappingSerde wrapper), and TLC validates every observation."""
import bz2
import lzma
import random
import zlib

from lib import common, tlc

PROP = "C15"
CODECS = {"zlib": (zlib.compress, zlib.decompress), "bz2": (bz2.compress, bz2.decompress),
          "lzma": (lzma.compress, lzma.decompress), "identity": (lambda b: b, lambda b: b)}


def make(cls, target, comp, rnd):
    """a value of class cls whose serialized form is roughly `target` bytes long"""
    from drivers import c15_types as T
    n = max(0, target)
    if comp == "grows":
        blob = bytes(rnd.randrange(256) for _ in range(n))
        text = "".join(chr(rnd.randrange(0x21, 0x7e)) for _ in range(n))
    else:
        blob = bytes([rnd.randrange(256)]) * n
        text = rnd.choice("aé€") * n
    if cls == "bytes":
        if rnd.random() < 0.15:
            import bz2, lzma, zlib
            # bytes that are themselves a valid stream of some codec (an already-compressed blob): they are just bytes
            return rnd.choice([zlib.compress, bz2.compress, lzma.compress])(blob or b"x")
        return blob
    if cls == "str":
        return text
    if cls == "int":
        return rnd.randrange(10 ** max(0, n - 1), 10 ** max(1, n)) if n else 0
    if cls == "bigint":
        return rnd.randrange(10 ** (n + 1500), 10 ** (n + 3000))
    if cls == "negint":
        return -rnd.randrange(10 ** max(0, n - 2), 10 ** max(1, n - 1) + 1)
    if cls == "bool":
        return rnd.random() < 0.5
    if cls == "none":
        return None
    if cls == "float":
        if rnd.random() < 0.3:
            return rnd.choice([1.0, 0.0, -0.0, -1.0])      # equal to True / False / an int, but a float
        return rnd.choice([0.0, -1.5, 1e300, 2.0 ** -40, float("inf"), 0.1 + 0.2, 1.0 / 3.0, 3.141592653589793, 5e-324,
                           1.7976931348623157e308, 123456789.12345679, -2.2250738585072014e-308])
    if cls == "list":
        return [blob, text, n]
    if cls == "dict":
        return {"k": blob, text[:5]: [1, 2.5, None]}
    if cls == "tuple":
        return (blob, (text, (n,)))
    if cls == "set":
        return {n, text[:7], b"x"}
    if cls == "frozenset":
        return frozenset([n, text[:3]])
    if cls == "complex":
        return complex(n, -1.25)
    if cls == "bytearray":
        return bytearray(blob)
    if cls == "range":
        return range(n, n + 7, 2)
    if cls == "intsub":
        return T.IntSub(n * 31 + 1)
    if cls == "strsub":
        return T.StrSub(text)
    if cls == "bytessub":
        return T.BytesSub(blob)
    if cls == "dictsub":
        return T.DictSub(a=blob, b=text)
    if cls == "object":
        return T.Obj(text, [blob, T.IntSub(5)])
    if cls == "nested":
        return {"l": [b"", T.StrSub("s"), {1, 2}, (None, True, 3 ** 80)], "d": {b"k": bytearray(b"v"), "r": range(3)}, "blob": blob}
    raise ValueError(cls)


def _same_shape(a, b, seen=None, depth=0):
    """structural equality for self-referential values (== would recurse for ever)"""
    if depth > 6:
        return True
    if type(a) is not type(b):
        return False
    if isinstance(a, list):
        return len(a) == len(b) and all(_same_shape(x, y, seen, depth + 1) for x, y in zip(a, b))
    if isinstance(a, dict):
        return set(a) == set(b) and all(_same_shape(a[k], b[k], seen, depth + 1) for k in a)
    return a == b


def observe(serde, comp, decomp, inner_serde, value, compressed, cyclic=False):
    ev = {"e": "rt", "raised": "none", "outtype": "other", "flags": 0, "n": 0, "outlen": 0, "decok": False, "rawok": False,
          "eq": False, "ty": False, "eq2": True, "compressed_serde": compressed}
    try:
        out, flags = serde.serialize(b"key", value)
        inner, _ = inner_serde.serialize(b"key", value)
    except Exception as e:   # noqa
        ev["raised"] = "serialize:" + type(e).__name__
        return ev
    if isinstance(out, bytes):
        ev["outtype"] = "bytes"
    elif isinstance(out, str) and out.isascii():
        ev["outtype"] = "ascii-str"
    ev["flags"] = flags if isinstance(flags, int) and 0 <= flags < 2 ** 31 else 2 ** 31 - 1
    innerb = inner if isinstance(inner, bytes) else str(inner).encode("ascii", "replace")
    outb = out if isinstance(out, bytes) else str(out).encode("ascii", "replace")
    ev["n"], ev["outlen"] = len(innerb), len(outb)
    ev["rawok"] = outb == innerb
    try:
        ev["decok"] = decomp(outb) == innerb
    except Exception:   # noqa
        ev["decok"] = False
    try:
        back = serde.deserialize(b"key", outb, flags)
    except Exception as e:   # noqa
        ev["raised"] = "deserialize:" + type(e).__name__
        return ev
    if cyclic:
        ev["eq"] = _same_shape(back, value) and (back[2] is back if isinstance(back, list) else back["children"][0]["parent"] is back)
        ev["ty"] = type(back) is type(value)
        return ev
    try:
        ev["eq"] = bool(back == value) and bool(value == back)
    except Exception:   # noqa
        ev["eq"] = False
    if isinstance(value, range):
        ev["eq"] = list(back) == list(value) if isinstance(back, range) else False
    ev["ty"] = type(back) is type(value)
    # the caller owns what it got: after it has changed its copy, reading the same stored item again gives the stored value
    import copy
    try:
        pristine = copy.deepcopy(value)
        if isinstance(back, list):
            back.append("caller-wrote-this")
        elif isinstance(back, dict):
            back["caller-wrote-this"] = 1
        elif isinstance(back, set):
            back.add("caller-wrote-this")
        elif isinstance(back, bytearray):
            back.extend(b"!")
        back2 = serde.deserialize(b"key", outb, flags)
        ev["eq2"] = bool(back2 == pristine) if not isinstance(value, range) else list(back2) == list(value)
    except Exception:   # noqa
        ev["eq2"] = False
    return ev


def main(tier, rep):
    common.import_repo()
    from pymemcache import serde as S
    r = tlc.run("Serde", cfg="Serde", workers=16, timeout=1800)
    if r.error:
        raise common.MachineryError(r.error)
    if not r.ok:
        rep.violation("C15/model/" + ",".join(r.invariants_violated), "decision model of serde.py violates the contract",
                      tlc.first_error_trace(r))
    grid = [x["g"] for x in r.json_lines("EXP")]
    grid.sort(key=lambda g: sorted(g.items()))
    rep.set("states", r.distinct)
    rep.set("transitions", r.generated)
    rep.set("checker_cmd", r.cmd)
    rep.set("grid_points", len(grid))
    rnd = random.Random(common.seed())
    stride = 6 if tier == "quick" else 1
    evs, pts = [], []
    rnd.shuffle(grid)            # a strided walk over the sorted grid would alias with its fastest-varying dimensions
    grid = grid[: len(grid) // stride]
    for gi, g in enumerate(grid):
        if g["codec"] in ("lzma", "bz2") and tier == "quick" and gi % 3:
            continue
        mn = g["min"]
        target = {"below": mn - 1, "at": mn, "above": mn + 5}[g["size"]] if mn else rnd.choice([0, 3, 50, 600])
        v = make(g["cls"], target, g["comp"], rnd)
        inner = S.PickleSerde(pickle_version=g["proto"])
        comp, decomp = CODECS[g["codec"]]
        if g["wrap"]:
            sd = S.CompressedSerde(compress=comp, decompress=decomp, serde=inner, min_compress_len=mn)
        elif gi % 5 == 0:
            sd = S.LegacyWrappingSerde(S.get_python_memcache_serializer(g["proto"]), S.python_memcache_deserializer)
        else:
            sd = inner
        ev = observe(sd, comp, decomp if g["wrap"] else (lambda b: b), inner, v, g["wrap"])
        evs.append(ev)
        pts.append((g, repr(v)[:60]))
        if gi % 7 == 0:
            # the same serde object right afterwards, with a value of ANOTHER type whose serialized bytes are the same
            # (an int and its decimal text; bytes and the str they spell): nothing of the first call may stick
            twin = str(v) if type(v) is int else v.decode("ascii") if type(v) is bytes and v.isascii() else \
                v.encode("ascii") if type(v) is str and v.isascii() else None
            if twin is not None:
                evs.append(observe(sd, comp, decomp if g["wrap"] else (lambda b: b), inner, twin, g["wrap"]))
                pts.append((dict(g, cls=g["cls"] + "-twin"), repr(twin)[:60]))
        if gi % 11 == 0 and g["cls"] in ("list", "dict", "nested", "object"):
            # values that reach themselves: a list containing itself, a dict pointing back at its parent
            cyc = [1, "two"]
            cyc.append(cyc)
            par = {"name": "parent", "children": []}
            par["children"].append({"name": "child", "parent": par})
            for cv in (cyc, par):
                e2 = observe(sd, comp, decomp if g["wrap"] else (lambda b: b), inner, cv, g["wrap"], cyclic=True)
                evs.append(e2)
                pts.append((dict(g, cls="cyclic"), "<self-referential>"))
        if gi % 13 == 0:
            # a value the serializer refuses (it holds a lambda), then -- on the same serde object -- values that share
            # objects with the refused one or repeat an object inside themselves: nothing of the failed call may stick
            shared = ["s", 1, b"b"]
            try:
                sd.serialize("k", [shared, lambda: 0, shared])
            except Exception:   # noqa -- refusing is fine; what follows is the subject
                pass
            for nv in ([shared, shared, {"again": shared}], shared, (shared, [shared])):
                evs.append(observe(sd, comp, decomp if g["wrap"] else (lambda b: b), inner, nv, g["wrap"]))
                pts.append((dict(g, cls="after-refused"), repr(nv)[:60]))
    # text with characters that codecs like to treat specially at the start or the end
    for proto in (0, 2, 5):
        inner = S.PickleSerde(pickle_version=proto)
        for wrap in (False, True):
            comp, decomp = CODECS["zlib"]
            sd = S.CompressedSerde(compress=comp, decompress=decomp, serde=inner, min_compress_len=3) if wrap else inner
            for tv in ("\ufeff", "\ufeffabc", "abc\ufeff", "\ufeff\ufeff", "\ufffe", "\x00lead", " lead ", "\r\nlead", "\udcff".encode("utf8", "surrogatepass").decode("utf8", "ignore") or "x",
                       "\ufeff" * 40, b"\xef\xbb\xbfbytes-with-a-signature", b"\xff\xfe", 0, -0, -1250, -5, 255, 256, 257):
                evs.append(observe(sd, comp, decomp if wrap else (lambda b: b), inner, tv, wrap))
                pts.append(({"cls": "special-text" if isinstance(tv, str) else "special-" + type(tv).__name__, "wrap": wrap, "proto": proto,
                             "codec": "zlib", "min": 3, "size": "n/a", "comp": "n/a"}, repr(tv)[:60]))
    B = 500
    traces = [{"h": {"maxrej": B + 1}, "ev": evs[i:i + B]} for i in range(0, len(evs), B)]
    acc, rej, st, _ = tlc.validate_traces("SerdeTrace", traces, chunk=100)
    rep.set("traces_validated_against_impl", len(evs))
    rep.set("trace_states", st)
    for ti, lst in sorted(rej.items()):
        for pos, clauses in lst:
            i = ti * B + pos - 1
            g, vr = pts[i]
            cl = ",".join(sorted(x.strip().strip('"') for x in clauses.strip("{}").split(",")))
            rep.violation(f"C15/{'compressed' if g['wrap'] else 'pickle'}/{g['cls']}/{cl}/{evs[i]['raised']}"
                          + (f"/proto<=2" if g["proto"] <= 2 and "round-trip" in cl else ""),
                          f"grid point {g} value {vr}: observation {evs[i]}: {cl}", {"grid": g, "value": vr, "event": evs[i]})
    rep.set("evaluations", len(evs))
    rep.set("distinct_nontrivial", len({str(sorted(g.items())) for g, _ in pts if g["cls"] not in ("bytes",) or g["wrap"]}))
    rep.set("rule", "one serialize+deserialize round trip per sampled grid point; non-trivial = not (plain bytes through the plain serde); distinct by grid point")
    for i in (7, len(evs) // 2):
        rep.sample({"grid": pts[i][0], "value": pts[i][1], "observation": evs[i]})
    rep.assumptions += ["equality and exact type are observed facts the contract requires (pickle itself is outside any TLA+ model)",
                        "NaN excluded; float('inf') included"]
