"""C12 -- HashClient single-key and multi-key operations agree on where a key lives.

(i)  TLC explores the as-coded routing model spec/HashRoute.tla (every placement function of 4 routing
     keys onto 2-3 servers, every sequence of set / set_many / get / get_many / delete over plain keys
     and (server_key, key) pairs incl. two pairs sharing the key name) against the contract monitor
     spec/RouteRule.tla and exports every behaviour; each is replayed into the real HashClient over a
     multi-server fake socket module with the placement forced through the hasher= seam.
(ii) With the real RendezvousHash behind a logging hasher: server sets of 1..5 servers (TCP and UNIX),
     key sets of 0..50 keys (str, bytes, pairs), prefixes, use_pooling on/off, every key-addressed
     operation.  Per-server command logs of the reference servers + the hasher's answers are validated
     by TLC: each key sent exactly once, to the server placement gave for its routing key, the same for
     single- and multi-key operations; what was written is found."""
import random

from lib import common, fakesock, tlc, vclock

PROP = "C12"


def build(nservers, hasher_cls, prefix=b"", pooling=False, unix_last=False):
    from pymemcache.client.hash import HashClient
    net = fakesock.FakeNet()
    specs = []
    for i in range(nservers):
        if unix_last and i == nservers - 1:
            key = "/var/run/mc%d.sock" % i
        else:
            key = ("mc%d.example" % (i + 1), 11211 + i)
        net.add_server(key)
        specs.append(key)
    hc = HashClient(specs, hasher=hasher_cls, socket_module=net, key_prefix=prefix, use_pooling=pooling,
                    default_noreply=False)
    names = ["%s:%s" % s if isinstance(s, tuple) else s for s in specs]
    return net, hc, specs, names


class Recorder:
    """turns one HashClient call into an 'op' event"""

    def __init__(self, net, hc, specs, names, prefix, hasher_log):
        self.net, self.hc, self.specs, self.names, self.prefix = net, hc, specs, names, prefix
        self.hasher_log = hasher_log
        self.kid = {}
        self.rkid = {}
        self.vid = 0
        self.n = 0

    def _id(self, table, x):
        b = x.encode("utf8") if isinstance(x, str) else x
        if b not in table:
            table[b] = len(table) + 1
        return table[b]

    def items(self, keys):
        out = []
        for k in keys:
            if isinstance(k, tuple):
                out.append([self._id(self.rkid, k[0]), self._id(self.kid, k[1])])
            else:
                out.append([self._id(self.rkid, k), self._id(self.kid, k)])
        return out

    def call(self, op, keys, fn, kind):
        self.n += 1
        self.net.begin_call(self.n)
        marks = {s: len(self.net.servers[s].log) for s in self.specs}
        del self.hasher_log[:]
        v = 0
        if kind == "write":
            self.vid += 1
            v = self.vid
        raised = "none"
        try:
            res = fn(b"v%d" % v if kind == "write" else None)
        except Exception as e:   # noqa -- healthy servers, legal keys: a raise is an outcome for the contract, not a harness failure
            raised, res = type(e).__name__, None
        # reference placement: the hasher, asked by the harness (not by the client) for every routing key
        placed = []
        for k in keys:
            rk = k[0] if isinstance(k, tuple) else k
            node = self.hc.hasher.get_node(rk)
            placed.append([self._id(self.rkid, rk), self.names.index(node) + 1 if node in self.names else 0])
        sent = []
        for si, s in enumerate(self.specs):
            for c in self.net.servers[s].log[marks[s]:]:
                ks = c.get("keys") or ([c["key"]] if "key" in c else [])
                for wk in ks:
                    bare = wk[len(self.prefix):] if wk.startswith(self.prefix) else b"?" + wk
                    sent.append([si + 1, self._id(self.kid, bare)])
        found = []
        shapes = []       # per found entry: 1 = a (value, cas token) pair, 0 = a plain value
        if kind == "read":
            d = res if isinstance(res, dict) else ({keys[0][1] if isinstance(keys[0], tuple) else keys[0]: res} if res is not None else {})
            for rk, rv in d.items():
                val = rv[0] if isinstance(rv, tuple) else rv
                if val is None:
                    continue
                vv = int(val[1:]) if isinstance(val, bytes) and val[:1] == b"v" and val[1:].isdigit() else -1
                found.append([self._id(self.kid, rk), vv])
                shapes.append(1 if isinstance(rv, tuple) and len(rv) == 2 and rv[1] is not None else 0)
        return {"e": "op", "op": op, "kind": kind, "v": v, "items": self.items(keys), "placed": placed, "sent": sent, "found": found,
                "shapes": shapes, "withcas": op in ("gets", "gets_many", "gats"), "raised": raised}


def make_logging_hasher(log, table=None):
    from pymemcache.client.rendezvous import RendezvousHash

    class LoggingHasher(RendezvousHash):
        def get_node(self, key):
            if table is not None:
                kb = key.encode() if isinstance(key, str) else key
                node = table(kb, self.nodes)
            else:
                node = RendezvousHash.get_node(self, key)
            log.append((key, node))
            return node
    return LoggingHasher


def run_ops(rec, hc, ops):
    evs = []
    for op, keys in ops:
        if op == "set":
            evs.append(rec.call(op, keys, lambda v: hc.set(keys[0], v), "write"))
        elif op == "set_many":
            evs.append(rec.call(op, keys, lambda v: hc.set_many({k: v for k in keys}), "write"))
        elif op in ("get", "gets", "gat", "gats"):
            kw = {"expire": 0} if op in ("gat", "gats") else {}
            evs.append(rec.call(op, keys, lambda v: getattr(hc, op)(keys[0], **kw), "read"))
        elif op in ("get_many", "gets_many"):
            evs.append(rec.call(op, keys, lambda v: getattr(hc, op)(list(keys)), "read"))
        elif op == "delete":
            evs.append(rec.call(op, keys, lambda v: hc.delete(keys[0]), "delete"))
        elif op == "delete_many":
            evs.append(rec.call(op, keys, lambda v: hc.delete_many(list(keys)), "delete"))
        elif op == "touch":
            evs.append(rec.call(op, keys, lambda v: hc.touch(keys[0], 0), "other"))
        elif op == "add":      # on a key that may exist: routing only (value effect not tracked => use fresh key names)
            evs.append(rec.call(op, keys, lambda v: hc.add(keys[0], v), "write"))
        elif op == "cas-stale":
            evs.append(rec.call(op, keys, lambda v: hc.cas(keys[0], b"zzz", b"99999999"), "other"))
        elif op == "incr-missing":
            evs.append(rec.call(op, keys, lambda v: hc.incr(keys[0], 1), "other"))
        elif op == "delete_many-acked":      # replies awaited: every key is still sent, whatever the earlier answers were
            evs.append(rec.call(op, keys, lambda v: hc.delete_many(list(keys), noreply=False), "delete"))
        elif op == "rejected":               # a request the per-server client refuses before sending: nothing changes for later calls
            try:
                hc.incr(keys[0], "not-a-number")
            except Exception:   # noqa
                pass
        else:
            raise ValueError(op)
    return evs


def main(tier, rep):
    vclock.install()
    common.import_repo()
    rnd = random.Random(common.seed())
    traces = []
    # ---- (i) TLC behaviours
    ns, mo = (2, 2) if tier == "quick" else (3, 2)
    cfg = f"""SPECIFICATION Spec
CONSTANTS
  NServers = {ns}
  MaxOps = {mo}
  Export = TRUE
VIEW view
INVARIANT MonitorOK
CHECK_DEADLOCK FALSE
"""
    r = tlc.run("HashRoute", cfg_text=cfg, workers=16, timeout=3000)
    if r.error:
        raise common.MachineryError(r.error)
    if not r.ok:
        rep.violation("C12/model/" + ",".join(r.invariants_violated), "as-coded routing model violates the contract",
                      tlc.first_error_trace(r))
    rep.set("states", r.distinct)
    rep.set("transitions", r.generated)
    rep.set("checker_cmd", r.cmd)
    beh = r.json_lines("EXP")
    rep.set("model_behaviours_exported", len(beh))
    if len(beh) < 100:
        raise common.MachineryError("vacuous export from HashRoute.tla")
    RK = {1: "k1", 2: "k2", 3: "sk3", 4: "sk4"}
    KN = {1: "k1", 2: "k2", 5: "k5"}
    stride = max(1, len(beh) // (2500 if tier == "quick" else 40000))
    for bi, b in enumerate(beh):
        if (bi + common.seed()) % stride:
            continue
        place = b["place"]
        log = []

        def table(kb, nodes, place=place):
            for i, name in RK.items():
                if name.encode() == kb:
                    return sorted(nodes)[place[i - 1] - 1] if nodes else None
            return sorted(nodes)[0] if nodes else None
        prefix = [b"", b"p:"][bi % 2]
        net, hc, specs, names = build(ns, make_logging_hasher(log, table), prefix=prefix, pooling=bool(bi % 3 == 0))
        order = sorted(names)
        specs_sorted = [specs[names.index(n)] for n in order]
        rec = Recorder(net, hc, specs_sorted, order, prefix, log)
        ops = []
        for step in b["hist"]:
            keys = []
            for rk, k in step["items"]:
                kn = KN[k] if bi % 2 else KN[k].encode()
                keys.append(kn if rk == k and rk in (1, 2) else (RK[rk], kn))
            ops.append((step["op"], keys))
        try:
            evs = run_ops(rec, hc, ops)
        except Exception as e:   # noqa
            evs = [{"e": "op", "op": "EXC:" + type(e).__name__, "kind": "other", "v": 0, "items": [], "placed": [], "sent": [[0, 0]], "found": []}]
        traces.append({"h": {}, "ev": evs, "what": ("model", b["place"], [(s["op"], s["items"]) for s in b["hist"]])})
    nmodel = len(traces)

    # ---- (ii) real rendezvous placement, random key sets
    for ti in range(60 if tier == "quick" else 1200):
        nsrv = rnd.randrange(1, 6)
        log = []
        prefix = rnd.choice([b"", b"pfx:", b"x" * 20])
        net, hc, specs, names = build(nsrv, make_logging_hasher(log), prefix=prefix, pooling=rnd.random() < 0.4,
                                      unix_last=rnd.random() < 0.5)
        rec = Recorder(net, hc, specs, names, prefix, log)
        universe = []
        for i in range(rnd.randrange(1, 51)):
            t = rnd.random()
            base = {0: "ab", 9: "z", 18: "cd", 27: "k7"}.get(i, "key-%d-%d" % (ti, i))      # very short keys too (2 characters: not a pair)
            if t < 0.45:
                universe.append(base)
            elif t < 0.7:
                universe.append(base.encode())
            else:
                universe.append((rnd.choice(["shard-a", "shard-b", b"shard-c", "sk%d" % i]), rnd.choice([base, base.encode(), "shared"])))
        ops = []
        for _ in range(rnd.randrange(3, 9)):
            op = rnd.choice(["set", "set_many", "set_many", "get", "get_many", "get_many", "gets", "gets_many", "gat", "gats",
                             "delete", "delete_many", "touch", "cas-stale", "incr-missing", "get_many", "delete_many-acked", "rejected"])
            if op in ("set_many", "get_many", "gets_many", "delete_many", "delete_many-acked"):
                ks = rnd.sample(universe, rnd.randrange(0, len(universe) + 1))
                # one dict / list cannot carry the same (server, key) twice
                seen, uniq = set(), []
                for k in ks:
                    kb = k[1] if isinstance(k, tuple) else k
                    kb = kb.encode() if isinstance(kb, str) else kb
                    if kb not in seen:
                        seen.add(kb)
                        uniq.append(k)
                ops.append((op, uniq))
            elif op == "incr-missing":
                ops.append((op, ["never-set-%d" % ti]))
            else:
                ops.append((op, [rnd.choice(universe)]))
        evs = run_ops(rec, hc, ops)
        if rnd.random() < 0.6:
            # the caller grows the server set, then goes on using the same keys
            newkey = ("mc-new.example", 11300)
            net.add_server(newkey)
            hc.add_server(newkey[0], newkey[1]) if rnd.random() < 0.5 else hc.add_server(newkey)
            rec.specs = list(rec.specs) + [newkey]
            rec.names = list(rec.names) + ["%s:%s" % newkey]
            evs.append({"e": "servers"})
            last = [o for o in ops if o[1]][-3:]
            evs += run_ops(rec, hc, [("get" if len(o[1]) == 1 else "get_many", o[1]) for o in last] +
                           [("set_many", o[1]) for o in last] + [("get_many", o[1]) for o in last])
        traces.append({"h": {}, "ev": evs, "what": ("real", nsrv, len(universe))})

    # ---- (iii) targeted: the caller grows the server set between two operations on the SAME key (no other key in between);
    # keys are chosen so that the new server takes them over.  Deterministic (no sampling).
    from pymemcache.client.rendezvous import RendezvousHash
    for nsrv in (1, 2, 3):
        for pooling in (False, True):
            for ki in range(40):
                k = "grow-%d-%d" % (nsrv, ki)
                log = []
                net, hc, specs, names = build(nsrv, make_logging_hasher(log), prefix=b"", pooling=pooling)
                newkey = ("mc-new.example", 11300)
                before = RendezvousHash(list(names)).get_node(k)
                after = RendezvousHash(list(names) + ["%s:%s" % newkey]).get_node(k)
                if before == after or ki % 2 and nsrv > 1:
                    continue                         # this key would not move
                rec = Recorder(net, hc, specs, names, b"", log)
                first = ["set", "get", "touch", "delete"][ki % 4]
                evs = run_ops(rec, hc, [(first, [k])])
                net.add_server(newkey)
                hc.add_server(newkey) if ki % 3 else hc.add_server(newkey[0], newkey[1])
                rec.specs = list(rec.specs) + [newkey]
                rec.names = list(rec.names) + ["%s:%s" % newkey]
                evs.append({"e": "servers"})
                evs += run_ops(rec, hc, [("set", [k]), ("get_many", ["other-%d" % ki, k]), ("get", [k]), ("gets_many", [k]),
                                         ("delete", [k]), ("get", [k])])
                traces.append({"h": {}, "ev": evs, "what": ("growth", nsrv, k)})
    # ---- (iv) one memcached key spelled as str and as bytes (the same key to a plain Client): written under one spelling,
    # read under the other
    twin_at = len(traces)
    for nsrv in (2, 3, 5):
        log = []
        net, hc, specs, names = build(nsrv, make_logging_hasher(log), prefix=b"")
        rec = Recorder(net, hc, specs, names, b"", log)
        ops = []
        for ki in range(12):
            k = "twin-%d" % ki
            ops += [("set", [k]), ("get", [k.encode()]), ("get_many", [k.encode(), "other"]), ("delete", [k.encode()]), ("get", [k])]
        traces.append({"h": {}, "ev": run_ops(rec, hc, ops), "what": ("twin-spellings", nsrv)})
    for t in traces:
        t["h"] = {"maxrej": 4}
    acc, rej, st, _ = tlc.validate_traces("RouteTrace", [{"h": t["h"], "ev": t["ev"]} for t in traces], chunk=3000)
    rep.set("traces_validated_against_impl", len(traces))
    rep.set("trace_states", st)
    for i, lst in sorted(rej.items()):
        t = traces[i]
        pos, clauses = lst[0]
        cl = ",".join(sorted(x.strip().strip('"') for x in clauses.strip("{}").split(",")))
        ev = t["ev"][pos - 1]
        allcl = {x.strip().strip('"') for _, c in lst for x in c.strip("{}").split(",")}
        if t["what"][0] == "twin-spellings" and allcl <= {"C12-written-then-found", "C12-single-and-multi-key-operations-agree-on-placement"}:
            # (the finding is about WHERE the two spellings live -- each still goes to the server placement gives for it; a key
            # sent anywhere else is another matter and is reported as such below)
            rep.violation("C12/str-and-bytes-spellings-of-one-key-are-placed-on-different-servers",
                          f"HashClient with {t['what'][1]} servers: a key written as str is not found / deleted when addressed as the equal bytes "
                          f"(event {pos} {ev.get('op')}: {cl}): the routing key is hashed as given, bytes through their repr",
                          {"what": t["what"], "events": t["ev"][max(0, pos - 3): pos]})
            continue
        rep.violation(f"C12/{t['what'][0]}/{ev.get('op')}/{cl}", f"{t['what']}: event {pos} {ev} rejected: {cl}",
                      {"what": t["what"], "events": t["ev"][: pos]})
    rep.set("evaluations", sum(len(t["ev"]) for t in traces))
    rep.set("distinct_nontrivial", nmodel + sum(1 for t in traces[nmodel:] for e in t["ev"] if len(e.get("items", [])) > 1))
    rep.set("rule", "one HashClient call per event; non-trivial = a replayed model behaviour (counted once) or a multi-key call; distinct by construction")
    rep.sample(traces[1]["what"])
    rep.sample({"real": traces[-1]["what"], "first_event": traces[-1]["ev"][0] if traces[-1]["ev"] else None})
    rep.assumptions += ["server set is static during a trace (failover is C13's subject)",
                        "placement itself is C11's subject: here the hasher's logged answers are the reference"]
