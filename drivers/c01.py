"""C01 -- a call only ever consumes the server's reply to its own request.

code -> spec: every public data operation x noreply variants x every single-fault plan (each
socket call of the operation x {timeout, reset, EOF, refused, ...}; each command's reply x {ERROR,
CLIENT_ERROR, SERVER_ERROR, garbage, truncation at a byte + EOF, truncation + silence}) x reply
segmentations, on Client / PooledClient / HashClient (plain and pooled), fresh and warm
connections, followed by further healthy calls; every execution is recorded at the socket_module
seam (reply bytes tagged with the call they answer) and validated by TLC against the contract
monitor spec/ConnRule.tla.  spec -> code: behaviours of the as-coded model spec/Conn.tla are
replayed (see drivers/connmodel.py)."""
from lib import common, vclock
from drivers import connlib as L

PROP = "C01"


def relevant(clause):
    return clause.startswith("C01-")


def main(tier, rep):
    vclock.install()
    common.import_repo()
    progs = L.gen_fault_programs(L.KINDS, L.ALL_OPS, tier, seed=common.seed(),
                                 quick_stride=3)
    # with ignore_exc a failed read is reported as a miss: the connection it failed on must not stay in use either
    reads = [(op, nrs) for op, nrs in L.ALL_OPS if op in L.READ_OPS or op == "stats"]
    progs += L.gen_fault_programs(L.KINDS, reads, tier, ignore_exc=True, seed=common.seed() + 5, quick_stride=2)
    # a call refused for its key sends nothing, so it leaves nothing to read either
    for kind in L.KINDS:
        for i, iop in enumerate(sorted(L.ILLEGAL_KEY_OPS)):
            for fi, fu in enumerate(L.FOLLOWUPS):
                for ign in (False, True):
                    steps = [("call", "set", False, None, "all"), ("call", iop, None, None, L.SEGS[(i + fi) % 3]), ("tick", 1)]
                    steps += [("call", f[0], f[1], None, L.SEGS[(i + fi + 1) % 3]) for f in fu if L.has_op(kind, f[0])]
                    progs.append((L.Cfg(kind=kind, ignore_exc=ign), steps))
    # the same keyless / read operation several times on one connection: each call asks the server itself
    for kind in L.KINDS:
        for dn in (True, False):
            for ops in (("version", "version", "stats", "version"), ("stats", "get", "stats", "get", "get_many", "get_many"),
                        ("gets", "gets", "incr", "incr", "touch", "touch"), ("flush_all", "flush_all", "get", "get")):
                steps = [("call", "set", False, None, "all")]
                steps += [("call", o, None, None, L.SEGS[i % 3]) for i, o in enumerate(ops) if L.has_op(kind, o)]
                progs.append((L.Cfg(kind=kind, default_noreply=dn), steps))
    traces = [L.run_program(cfg, steps) for cfg, steps in progs]
    L.validate(rep, traces, relevant, PROP)
    # code -> spec on executions the harness did not design: the repository's own integration tests
    from drivers import repoit
    repoit.conn_part(rep, PROP, relevant)
    from drivers import connmodel
    connmodel.design_and_replay(rep, tier, PROP, relevant)
    rep.set("evaluations", len(traces))
    rep.set("distinct_nontrivial", len({(t["h"]["kind"],) + tuple((s[1], s[2], s[3]) for s in t["steps"] if s[0] == "call" and s[3]) for t in traces}))
    rep.set("rule", "one execution per (stack, warm/fresh, operation, noreply, single-fault plan, follow-up sequence); "
                    "non-trivial = the plan injects a fault; distinct by (stack, op, noreply, plan)")
    for t in traces[7::max(1, len(traces) // 4)][:4]:
        rep.sample({"stack": t["h"]["kind"], "program": t["steps"], "n_events": len(t["ev"])})
    rep.assumptions += ["server honours noreply and sends no unsolicited bytes",
                        "one fault per call (faults of different calls combine)",
                        "fake socket module stands for the kernel; close() faults release the descriptor"]
