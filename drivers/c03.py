"""C03 -- reply parsing does not depend on how the byte stream is split.

(A) TLC checks the as-coded model of the chunked readers (spec/Reader.tla) against the whole-stream
    reference of spec/ReaderRule.tla for every stream over a 4-symbol alphabet up to MaxLen, every
    read plan, every segmentation and EINTR position.
(B) The real _readline / _readvalue / _readsegment are run over the same streams x plans x ALL
    segmentations (every subset of cut positions) x EINTR injection; every execution is validated by
    TLC against the reference (spec/ReaderTrace.tla).
(C) A scenario corpus of public calls (values containing CR LF / END / VALUE lines, multi-key, cas,
    stats, store / delete / incr / touch / version lines, raw_command with three end tokens and
    near-miss payloads, the ElastiCache config reply, values around the 4096-byte receive size) is
    executed under segmentations (all subsets of cuts for short replies; all 1-/2-/3-cut, single-byte
    and 4096-aligned cuts for long ones; EINTR between pieces); the result must equal the one-piece
    result (clause checked by TLC)."""
import errno
import itertools
import random

from lib import common, tlc, vclock

PROP = "C03"
ALPHABET = [13, 10, 69, 120]


class ScriptSock:
    """recv() returns the scripted pieces; 'EINTR' entries raise OSError(EINTR)"""

    def __init__(self, pieces):
        self.pieces = list(pieces)
        self.i = 0
        self.sent = []
        self.closed = False

    def recv(self, size):
        if self.i >= len(self.pieces):
            return b""
        p = self.pieces[self.i]
        if p == "EINTR":
            self.i += 1
            raise OSError(errno.EINTR, "Interrupted system call")
        if len(p) > size:
            self.pieces[self.i] = p[size:]
            return p[:size]
        self.i += 1
        return p

    def sendall(self, data):
        self.sent.append(bytes(data))

    def close(self):
        self.closed = True

    def settimeout(self, t):
        pass

    def undelivered(self):
        return b"".join(p for p in self.pieces[self.i:] if p != "EINTR")


def all_cuts(n):
    """every segmentation of n bytes as a tuple of piece lengths"""
    for mask in range(1 << max(0, n - 1)):
        sizes, cur = [], 1
        for b in range(n - 1):
            if mask >> b & 1:
                sizes.append(cur)
                cur = 1
            else:
                cur += 1
        if n:
            sizes.append(cur)
        yield sizes


def pieces_of(stream, sizes):
    out, i = [], 0
    for s in sizes:
        out.append(stream[i:i + s])
        i += s
    return out


PLANS = [
    [("line",)], [("line",), ("line",)], [("value", 0)], [("value", 1)], [("value", 2)], [("value", 3)],
    [("line",), ("value", 1), ("line",)], [("value", 1), ("line",)], [("seg", b"\r\n")], [("seg", b"E\r\n")],
    [("seg", b"\n\r\nE")], [("seg", b"\r\n"), ("seg", b"\r\n")], [("line",), ("value", 2), ("line",)],
    [("seg", b"\n\r\nE\r\n")], [("seg", b"E\r\n"), ("line",)],
]


def ref_ok(stream, plan):
    s = stream
    for op in plan:
        if op[0] == "line":
            i = s.find(b"\r\n")
            if i < 0:
                return False
            s = s[i + 2:]
        elif op[0] == "value":
            if len(s) < op[1] + 2:
                return False
            s = s[op[1] + 2:]
        else:
            i = s.find(op[1])
            if i < 0:
                return False
            s = s[i + len(op[1]):]
    return True


def run_reads(base, stream, plan, pieces):
    sock = ScriptSock(pieces)
    buf = b""
    results = []
    try:
        for op in plan:
            if op[0] == "line":
                buf, r = base._readline(sock, buf)
            elif op[0] == "value":
                buf, r = base._readvalue(sock, buf, op[1])
            else:
                buf, r = base._readsegment(sock, buf, op[1])
            results.append(r)
    except Exception as e:   # noqa
        results.append(("EXC:" + type(e).__name__).encode())
    return {"e": "reads", "stream": list(stream),
            "plan": [{"k": op[0]} if op[0] == "line" else {"k": "value", "n": op[1]} if op[0] == "value"
                     else {"k": "seg", "tok": list(op[1])} for op in plan],
            "pieces": [list(p) for p in pieces if p != "EINTR"], "results": [list(r) for r in results],
            "rest": list(buf + sock.undelivered())}


# ---------------------------------------------------------------- (C) public-call corpus
def corpus():
    V = b"VALUE "
    sc = []

    def add(name, call, reply):
        sc.append((name, call, reply))
    add("get-crlf-in-value", lambda c: c.get("k"), V + b"k 0 7\r\nab\r\nc\r\n\r\nEND\r\n")
    add("get-END-in-value", lambda c: c.get("k"), V + b"k 0 5\r\nEND\r\n\r\nEND\r\n")
    add("get-VALUE-line-in-value", lambda c: c.get("k"), V + b"k 0 13\r\nVALUE k 0 1\r\n\r\nEND\r\n")
    add("get-value-ends-with-CR", lambda c: c.get("k"), V + b"k 0 3\r\nab\r\r\nEND\r\n")
    add("get-value-only-CRs", lambda c: c.get("k"), V + b"k 0 2\r\r\r\nEND\r\n")
    add("get-empty-value", lambda c: c.get("k"), V + b"k 0 0\r\n\r\nEND\r\n")
    add("get-value-starts-with-LFs", lambda c: c.get("k"), V + b"k 0 5\r\n\n\nab\n\r\nEND\r\n")
    add("get_many-values-of-LFs-and-CRs", lambda c: c.get_many(["k", "j"]), V + b"k 0 2\r\n\n\n\r\n" + V + b"j 0 3\r\n\n\r\n\r\nEND\r\n")
    add("get-miss", lambda c: c.get("k", "dflt"), b"END\r\n")
    add("gets", lambda c: c.gets("k"), V + b"k 0 2 77\r\nhi\r\nEND\r\n")
    add("gat", lambda c: c.gat("k", 10), V + b"k 0 2\r\nhi\r\nEND\r\n")
    add("gats", lambda c: c.gats("k", 10), V + b"k 5 1 9\r\n\r\r\nEND\r\n")
    add("get_many", lambda c: c.get_many(["k", "j", "m"]), V + b"k 0 1\r\nx\r\n" + V + b"m 3 2\r\n\r\n\r\nEND\r\n")
    add("gets_many", lambda c: c.gets_many(["k", "j"]), V + b"k 0 1 5\r\nx\r\n" + V + b"j 0 0 6\r\n\r\nEND\r\n")
    add("stats", lambda c: c.stats(), b"STAT pid 1\r\nSTAT version 1.6.21\r\nSTAT blank \r\nEND\r\n")
    add("set", lambda c: c.set("k", b"v", noreply=False), b"STORED\r\n")
    add("add", lambda c: c.add("k", b"v", noreply=False), b"NOT_STORED\r\n")
    add("cas", lambda c: c.cas("k", b"v", b"1"), b"EXISTS\r\n")
    add("set_many", lambda c: c.set_many({"a": b"1", "b": b"2", "c": b"3"}, noreply=False), b"STORED\r\nNOT_STORED\r\nSTORED\r\n")
    add("delete", lambda c: c.delete("k", noreply=False), b"DELETED\r\n")
    add("delete-miss", lambda c: c.delete("k", noreply=False), b"NOT_FOUND\r\n")
    add("delete_many", lambda c: c.delete_many(["a", "b"], noreply=False), b"DELETED\r\nNOT_FOUND\r\n")
    add("incr", lambda c: c.incr("k", 1), b"12345\r\n")
    add("decr-miss", lambda c: c.decr("k", 1), b"NOT_FOUND\r\n")
    add("touch", lambda c: c.touch("k", 1, noreply=False), b"TOUCHED\r\n")
    add("version", lambda c: c.version(), b"VERSION 1.6.21\r\n")
    add("flush_all", lambda c: c.flush_all(noreply=False), b"OK\r\n")
    add("client-error", lambda c: c.set("k", b"v", noreply=False), b"CLIENT_ERROR bad data chunk\r\n")
    add("raw-crlf", lambda c: c.raw_command(b"version"), b"VERSION 1.6\r\n")
    add("raw-END", lambda c: c.raw_command(b"stats", end_tokens=b"END\r\n"), b"STAT a 1\r\nSTAT EN D\r\nEND\r\n")
    add("raw-aws-token", lambda c: c.raw_command(b"config get cluster", end_tokens=b"\n\r\nEND\r\n"),
        b"CONFIG cluster 0 30\r\n1\nh|1.2.3.4|11211\n\r\nEN\n\r\nEND\r\n")
    add("raw-mn", lambda c: c.raw_command(b"mn", end_tokens=b"MN\r\n"), b"MMN\r\n")
    add("raw-error-line", lambda c: c.raw_command(b"config get cluster", end_tokens=b"\n\r\nEND\r\n"), b"ERROR\r\n")
    add("raw-client-error-line", lambda c: c.raw_command(b"x", end_tokens=b"END\r\n"), b"CLIENT_ERROR line format: command too long\r\n")
    add("raw-server-error-line", lambda c: c.raw_command(b"x", end_tokens=b"XY"), b"SERVER_ERROR out of memory\r\n")
    add("raw-one-byte-token", lambda c: c.raw_command(b"version", end_tokens=b"\n"), b"VERSION some reply\r\n")
    add("raw-one-byte-token-dot", lambda c: c.raw_command(b"x", end_tokens=b"."), b"abc def,;:.")
    add("raw-two-byte-token", lambda c: c.raw_command(b"x", end_tokens=b"ab"), b"aaa aab")
    return sc


def aws_reply(n):
    nodes = " ".join("node%d.cfg.use1.cache.amazonaws.com|10.0.0.%d|%d" % (i, i + 1, 11211 + i) for i in range(n))
    payload = ("12\n" + nodes + "\n").encode()
    return b"CONFIG cluster 0 " + str(len(payload)).encode() + b"\r\n" + payload + b"\r\nEND\r\n"


def seg_plan(n, tier, rnd):
    """segmentations of an n-byte reply"""
    limit = 11 if tier == "quick" else 16
    if n <= limit:
        yield from all_cuts(n)
        return
    yield [n]
    yield [1] * n
    cuts1 = range(1, n)
    for a in cuts1:
        yield [a, n - a]
    pairs = list(itertools.combinations(range(1, n), 2))
    if tier == "quick" and len(pairs) > 400:
        pairs = rnd.sample(pairs, 400)
    for a, b in pairs:
        yield [a, b - a, n - b]
    triples = list(itertools.combinations(range(1, n), 3)) if n <= 40 else []
    if len(triples) > (300 if tier == "quick" else 20000):
        triples = rnd.sample(triples, 300 if tier == "quick" else 20000)
    for a, b, c in triples:
        yield [a, b - a, c - b, n - c]


def main(tier, rep):
    vclock.install()
    common.import_repo()
    from pymemcache.client import base
    rnd = random.Random(common.seed())
    # ---- (A) design check
    maxlen = 5 if tier == "quick" else 7
    cfg = f"""SPECIFICATION Spec
CONSTANTS
  MaxLen = {maxlen}
  RecvSize = 3
  Plans <- {'PlansQuick' if tier == 'quick' else 'PlansThorough'}
  SegAccumulates = TRUE
INVARIANT ResultsMatchReference
INVARIANT RestIntact
INVARIANT NeverStarves
INVARIANT PrefixOK
CHECK_DEADLOCK FALSE
"""
    r = tlc.run("ReaderMC", cfg_text=cfg, workers=16, timeout=3000)
    if r.error:
        raise common.MachineryError(r.error)
    if not r.ok:
        rep.violation("C03/model/" + ",".join(r.invariants_violated), "as-coded reader model disagrees with the whole-stream reference",
                      tlc.first_error_trace(r))
    rep.set("states", r.distinct)
    rep.set("transitions", r.generated)
    rep.set("checker_cmd", r.cmd)

    # ---- (B) the real reader functions over the model's streams, every segmentation
    evs = []
    blen = 4 if tier == "quick" else 6
    streams = [bytes(s) for n in range(0, blen + 1) for s in itertools.product(ALPHABET, repeat=n)]
    # longer streams: sampled
    for _ in range(300 if tier == "quick" else 5000):
        n = rnd.randrange(blen + 1, 11)
        streams.append(bytes(rnd.choice(ALPHABET) for _ in range(n)))
    for stream in streams:
        for plan in PLANS:
            if not ref_ok(stream, plan):
                continue
            cuts = list(all_cuts(len(stream)))
            if len(stream) > blen and len(cuts) > 24:
                cuts = rnd.sample(cuts, 24)
            for sizes in cuts:
                pieces = pieces_of(stream, sizes)
                evs.append(run_reads(base, stream, plan, pieces))
                if len(pieces) > 1 and rnd.random() < 0.15:
                    k = rnd.randrange(0, len(pieces) + 1)
                    evs.append(run_reads(base, stream, plan, pieces[:k] + ["EINTR"] * rnd.choice([1, 2, 3]) + pieces[k:]))
    rep.set("reader_executions", len(evs))

    # ---- (C) public calls under segmentations
    big = []
    for size in [4094, 4095, 4096, 4097, 4098, 8190, 8191, 8192, 8193, 8194, 3 * 4096]:
        val = bytes((i * 7 + 13) % 256 for i in range(size))
        val = val[:-1] + b"\r"          # ends with CR: the straddle case of the value reader
        big.append(("get-big-%d" % size, (lambda c: c.get("k")), b"VALUE k 0 %d\r\n" % size + val + b"\r\nEND\r\n"))
    ncalls = 0
    nseg = 0
    for name, call, reply in corpus() + big + [("aws-%d" % n, None, aws_reply(n)) for n in (1, 2, 4)]:
        def run(pieces, name=name, call=call):
            sock = ScriptSock(pieces)
            if name.startswith("aws-"):
                from pymemcache.client.ext.aws_ec_client import AWSElastiCacheHashClient

                class SM:
                    AF_UNSPEC = AF_INET = 2
                    SOCK_STREAM = 1
                    IPPROTO_TCP = 6

                    def getaddrinfo(self, *a):
                        return [(2, 1, 6, "", ("1.1.1.1", 11211))]

                    def socket(self, *a):
                        sock.connect = lambda addr: None
                        return sock
                try:
                    c = AWSElastiCacheHashClient("cluster.abcxyz.cfg.use1.cache.amazonaws.com:11211", socket_module=SM())
                    return repr(sorted(c.clients))
                except Exception as e:   # noqa
                    return "EXC:" + type(e).__name__
            c = base.Client(("h", 1))
            c.sock = sock
            try:
                r = repr(call(c))
            except Exception as e:   # noqa
                return "EXC:" + type(e).__name__ + ":" + str(e)[:40]
            # the call consumes its reply, all of it, however it was split: what it leaves unread belongs to the next call
            return r + " |unread=%d" % len(sock.undelivered())
        ref = run([reply])
        ncalls += 1
        n = len(reply)
        if n > 3000:
            segs = [[n], [n - 1, 1], [n - 2, 2], [n - 3, 3], [n - 7, 1, 1, 1, 1, 1, 1, 1]]
            for base_cut in (4096, 8192, 12288):
                for d in (-2, -1, 0, 1, 2):
                    a = base_cut + d
                    if 0 < a < n:
                        segs.append([a, n - a])
                        for d2 in (1, 2):
                            if a + d2 < n:
                                segs.append([a, d2, n - a - d2])
            hdr = reply.find(b"\r\n") + 2
            segs.append([hdr, n - hdr])
            segs.append([hdr + 4096, n - hdr - 4096] if hdr + 4096 < n else [n])
            segs.append([4096] * (n // 4096) + ([n % 4096] if n % 4096 else []))
        else:
            segs = seg_plan(n, tier, rnd)
        for sizes in segs:
            pieces = pieces_of(reply, sizes)
            variants = [pieces]
            if len(pieces) > 1 and (nseg % 7 == 0):
                k = rnd.randrange(1, len(pieces))
                variants.append(pieces[:k] + ["EINTR"] * (1 + nseg % 3) + pieces[k:])
            for pv in variants:
                got = run(pv)
                nseg += 1
                ev = {"e": "call", "same": got == ref, "name": name}
                if got != ref:
                    ev.update(sizes=[len(p) if p != "EINTR" else "EINTR" for p in pv][:12], got=got[:80], ref=ref[:80])
                evs.append(ev)
    rep.set("public_call_scenarios", ncalls)
    rep.set("public_call_segmentations", nseg)

    B = 500
    traces = [{"h": {"maxrej": B + 1}, "ev": evs[i:i + B]} for i in range(0, len(evs), B)]
    acc, rej, st, _ = tlc.validate_traces("ReaderTrace", traces, chunk=100)
    rep.set("traces_validated_against_impl", len(evs))
    rep.set("trace_states", st)
    for ti, lst in sorted(rej.items()):
        for pos, clauses in lst:
            ev = evs[ti * B + pos - 1]
            cl = ",".join(sorted(x.strip().strip('"') for x in clauses.strip("{}").split(",")))
            if ev["e"] == "reads":
                kinds = "+".join(p["k"] for p in ev["plan"])
                toks = [len(p["tok"]) for p in ev["plan"] if p["k"] == "seg"]
                sig = f"C03/reader/{kinds}{'/tok' + str(toks[0]) if toks else ''}/{cl}"
                what = (f"stream {bytes(ev['stream'])!r} delivered as {[bytes(p) for p in ev['pieces']]} with plan {ev['plan']}: "
                        f"returned {[bytes(x) for x in ev['results']]} rest {bytes(ev['rest'])!r}: {cl}")
            else:
                sig = f"C03/call/{ev['name'].split('-')[0] if ev['name'].startswith(('get-big', 'aws')) else ev['name']}/{cl}"
                what = f"scenario {ev['name']}: pieces {ev.get('sizes')} gave {ev.get('got')} but the one-piece reply gives {ev.get('ref')}"
            rep.violation(sig, what, ev)
    rep.set("evaluations", len(evs))
    rep.set("distinct_nontrivial", sum(1 for e in evs if (e["e"] == "reads" and len(e["pieces"]) > 1)) + nseg - ncalls)
    rep.set("rule", "one execution per (stream, read plan, segmentation[, EINTR position]) for the reader functions and per (scenario, "
                    "segmentation) for public calls; non-trivial = the stream is delivered in more than one piece; all are distinct by construction")
    rep.sample(next(e for e in evs if e["e"] == "reads" and len(e["pieces"]) > 2))
    rep.sample({"scenario": "get-big-4096", "segmentations": "4096k +- {0,1,2} and header-aligned cuts"})
    rep.assumptions += ["reader alphabet {CR, LF, 'E', 'x'}; real byte values appear in the public-call corpus",
                        "RECV_SIZE-limited pieces are modelled with RecvSize = 3 in TLC and with real 4096-byte cuts in the corpus"]
