"""The repository's own integration tests as a source of executions.

pymemcache/test/test_integration.py (106 parametrised tests over Client, PooledClient and a one-server
HashClient; deselected in the pinned run because they need a memcached) is run in a fresh interpreter against
the reference server behind the fake socket module (lib/itplugin/verif_itplugin.py).  The plugin records every
public call with its socket activity, one trace per client object; TLC validates them against
spec/ConnRule.tla (reply ownership, noreply, connection lifecycle) and what each call wrote against the
strict tokenizer of spec/Proto.tla (spec/SentRule.tla).  A failing repository test is reported as evidence
only: verdicts come from TLC."""
import json
import os
import re
import subprocess
import sys

from lib import common, tlc


def record(rep):
    out = os.path.join(common.subscratch("repoit"), "it.ndjson")
    env = dict(os.environ, PYTHONPATH=os.pathsep.join([common.REPO, os.path.join(common.VERIF, "lib", "itplugin"), common.VERIF]),
               VERIF_IT_OUT=out, PYTHONDONTWRITEBYTECODE="1", PYTHONHASHSEED="0")
    test = os.path.join(common.REPO, "pymemcache", "test", "test_integration.py")
    if not os.path.exists(test):
        raise common.MachineryError("the repository's integration tests are gone: " + test)
    p = subprocess.run([sys.executable, "-B", "-m", "pytest", test, "-m", "integration", "-p", "verif_itplugin",
                        "-p", "no:cacheprovider", "--no-cov", "-q", "--timeout=300"],
                       cwd=os.path.dirname(out), env=env, stdout=subprocess.PIPE, stderr=subprocess.STDOUT, text=True, timeout=900)
    m = re.search(r"(?:(\d+) failed, )?(\d+) passed", p.stdout)
    if not m or not os.path.exists(out):
        raise common.MachineryError("integration tests did not run: " + p.stdout[-600:])
    traces = [json.loads(l) for l in open(out)]
    rep.set("repo_integration_tests_passed", int(m.group(2)))
    rep.set("repo_integration_tests_failed", int(m.group(1) or 0))
    if int(m.group(2)) < 50 or len(traces) < 50:
        raise common.MachineryError("vacuous: %s tests passed, %d traces" % (m.group(2), len(traces)))
    return traces


def conn_part(rep, prop, relevant):
    traces = [t for t in record(rep) if "wire" not in t["h"]]
    acc, rej, st, _ = tlc.validate_traces("ConnTrace", [{"h": dict(t["h"], maxrej=6), "ev": t["ev"]} for t in traces], chunk=200)
    rep.add("traces_validated_against_impl", len(traces))
    rep.add("trace_states", st)
    rep.set("repo_integration_traces", len(traces))
    for i, lst in sorted(rej.items()):
        t = traces[i]
        for pos, clauses in lst:
            cl = sorted(c for c in (x.strip().strip('"') for x in clauses.strip("{}").split(",")) if relevant(c))
            if not cl:
                continue
            ev = t["ev"][pos - 1] if pos <= len(t["ev"]) else {}
            call = [e for e in t["ev"][:pos] if e.get("e") == "call"]
            op = call[-1]["op"] if call else "?"
            rep.violation(f"{prop}/repo-integration-test/{t['h']['kind']}/{','.join(cl)}/{op}",
                          f"{t['test']}: {t['h']['kind']} call {op}: event {pos} {ev} rejected: {cl}",
                          {"test": t["test"], "header": t["h"], "events": t["ev"][max(0, pos - 12): pos + 1]})
            break


def wire_part(rep, prop):
    traces = [t for t in record(rep) if "wire" in t["h"]]
    acc, rej, st, _ = tlc.validate_traces("SentTrace", [{"h": {"maxrej": 4}, "ev": t["ev"]} for t in traces], chunk=200)
    n = sum(len(t["ev"]) for t in traces)
    rep.add("traces_validated_against_impl", n)
    rep.add("trace_states", st)
    rep.set("repo_integration_calls_tokenized", n)
    for i, lst in sorted(rej.items()):
        t = traces[i]
        pos, clauses = lst[0]
        ev = t["ev"][pos - 1]
        cl = ",".join(sorted(x.strip().strip('"') for x in clauses.strip("{}").split(",")))
        rep.violation(f"{prop}/repo-integration-test/{ev['op']}/{cl}",
                      f"{t['test']}: {ev['op']} wrote {bytes(ev['raw'][:80])!r}: {cl}", {"test": t["test"], "event": ev})
