"""C10 -- asynchronous interruption cannot desynchronise a client or leak a pool slot.
Every socket call of every operation is an interruption point x {KeyboardInterrupt, SystemExit,
a BaseException subclass standing for gevent.Timeout}; pool sizes 1 and 2; followed by further
calls.  Oracle: reply ownership / in-sync clauses of spec/ConnRule.tla (as C01) plus the pool-slot
clause."""
from lib import common, vclock
from drivers import connlib as L

PROP = "C10"


def relevant(c):
    return c.startswith("C01-") or c == "C09-C10-no-pool-slot-lost"


def main(tier, rep):
    vclock.install()
    common.import_repo()
    progs = []
    for mp in (1, 2):
        progs += L.gen_fault_programs(["pooled", "hashpooled"], L.ALL_OPS, tier, interrupts=True,
                                      seed=common.seed() + mp, cfg_extra={"max_pool": mp}, quick_stride=4)
    progs += L.gen_fault_programs(["client", "hash"], L.ALL_OPS, tier, interrupts=True, seed=common.seed(),
                                  quick_stride=4)
    # a reply read up to an end token of the caller's (raw_command): interrupted in each of its reads and sends, always run
    for kind in ("client", "pooled"):
        for ik in L.INTERRUPT_KINDS:
            for where in (("recv", 1), ("recv", 2), ("sendall", 1)):
                for warm in (False, True):
                    steps = ([("call", "set", False, None, "all")] if warm else []) + \
                            [("call", "raw_command_stats", None, {where: ik}, "bytes"), ("tick", 1),
                             ("call", "get", None, None, "all"), ("call", "raw_command", None, None, "all"), ("call", "add", False, None, "all")]
                    progs.append((L.Cfg(kind=kind, max_pool=1), steps))
    # an idle-expired pooled connection is closed inside the next call: that close() is an interruption point too
    n = common.seed()
    for kind in ("pooled", "hashpooled"):
        for mp in (1, 2):
            for op, nrs in L.ALL_OPS:
                if not L.has_op(kind, op):
                    continue
                for ik in L.INTERRUPT_KINDS:
                    for pre in (False, True):
                        n += 1
                        if tier == "quick" and n % 3:
                            continue
                        cfg = L.Cfg(kind=kind, max_pool=mp, idle=3, default_noreply=(n % 2 == 0))
                        steps = [("call", "set", False, None, "all"), ("tick", 5),
                                 ("call", op, nrs[n % len(nrs)], {("close", 1): ("pre", ik) if pre else ik}, "all"), ("tick", 1)]
                        steps += [("call", f[0], f[1], None, "all") for f in L.FOLLOWUPS[n % len(L.FOLLOWUPS)] if L.has_op(kind, f[0])]
                        progs.append((cfg, steps))
    # a pooled call rejected before any exchange (illegal key) gives the connection back through the pool's failure path:
    # its close() is an interruption point as well
    for kind in ("pooled", "hashpooled"):
        for mp in (1, 2):
            for ik in L.INTERRUPT_KINDS:
                for pre in (False, True):
                    n += 1
                    cfg = L.Cfg(kind=kind, max_pool=mp, default_noreply=(n % 2 == 0))
                    steps = [("call", "set", False, None, "all"), ("tick", 1),
                             ("call", "get_illegal", None, {("close", 1): ("pre", ik) if pre else ik}, "all"), ("tick", 1)]
                    steps += [("call", f[0], f[1], None, "all") for f in L.FOLLOWUPS[n % len(L.FOLLOWUPS)] if L.has_op(kind, f[0])]
                    progs.append((cfg, steps))
    # two interruptions in one history: the first inside the close() that ends a quit (or an error path), the second in the middle
    # of a later reply -- whatever the first one left behind must not disarm the clean-up of the second
    for kind in L.KINDS:
        for ik in L.INTERRUPT_KINDS:
            for pre in (False, True):
                for second_op, second_plan in (("get", {("recv", 1): ik}), ("incr", {("recv", 1): ik}), ("set", {("sendall", 1): ("half", ik)})):
                    n += 1
                    if tier == "quick" and n % 2:
                        continue
                    cfg = L.Cfg(kind=kind, max_pool=2 if "pooled" in kind else None, default_noreply=False)
                    steps = [("call", "set", False, None, "all"),
                             ("call", "quit", None, {("close", 1): ("pre", ik) if pre else ik}, "all"), ("tick", 1),
                             ("call", "set", False, None, "all"),
                             ("call", second_op, False if second_op == "set" else None, second_plan, "all"), ("tick", 1),
                             ("call", "get", None, None, "all"), ("call", "add", False, None, "all")]
                    progs.append((cfg, steps))
    traces = [L.run_program(cfg, steps) for cfg, steps in progs]
    L.validate(rep, traces, relevant, PROP)
    from drivers import connmodel
    connmodel.design_and_replay(rep, tier, PROP, relevant, interrupts=True)
    rep.set("evaluations", len(traces))
    rep.set("distinct_nontrivial", len({(t["h"]["kind"], t["cfg"]["max_pool"]) + tuple((s[1], s[2], s[3]) for s in t["steps"] if s[0] == "call" and s[3]) for t in traces}))
    rep.set("rule", "one execution per (stack, pool size, warm/fresh, op, noreply, interruption point = k-th socket call of a type, interrupt kind, follow-ups); "
                    "every execution is non-trivial (an interrupt is raised); distinct by (stack, pool size, op, noreply, point, kind)")
    for t in traces[5::max(1, len(traces) // 4)][:4]:
        rep.sample({"stack": t["h"]["kind"], "max_pool": t["cfg"]["max_pool"], "program": t["steps"]})
    rep.assumptions += ["interrupts are raised inside socket-module calls (where a signal handler or gevent hub would raise them)",
                        "an interrupt delivered between two bytecodes outside any socket call is not explored"]
