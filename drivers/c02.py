"""C02 -- requests are well-formed memcached commands; arguments cannot inject.

Every key-taking operation x key corpus (legal / illegal classes incl. injection attempts, boundary
lengths with and without prefix, multi-key batches with an illegal key first / middle / last) x
values containing protocol text x integer arguments over the protocol's ranges and non-integers x
noreply / default_noreply x Client / PooledClient / HashClient.  Whatever sendall() received is
parsed by the strict server-grade parser lib/wire.py and TLC decides, per call, with
spec/WireRule.tla (over spec/KeyRule.tla): input error before a single byte, or exactly the
intended commands and nothing more."""
import hashlib
import itertools
import random

from lib import common, fakesock, tlc, vclock, wire

PROP = "C02"
U64 = 2 ** 64


def desc(b):
    return "%d:%s" % (len(b), hashlib.sha256(b).hexdigest()[:16])


def keyrec(k):
    return {"isstr": isinstance(k, str), "u": [ord(c) for c in k] if isinstance(k, str) else list(k)}


def cmdrec(c):
    if "error" in c:
        return {"verb": "PARSE-ERROR", "why": c["error"]}
    v = c["verb"].decode("latin1")
    if c["verb"] in wire.STORAGE:
        return {"verb": v, "key": list(c["key"]), "flags": str(c["flags"]), "exptime": str(c["exptime"]),
                "bytes": str(c["bytes"]), "data": desc(c["data"]), "noreply": c["noreply"],
                "cas": str(c["cas"]) if "cas" in c else ""}
    if v in ("get", "gets"):
        return {"verb": v, "keys": [list(k) for k in c["keys"]], "exptime": "", "noreply": False}
    if v in ("gat", "gats"):
        return {"verb": v, "keys": [list(k) for k in c["keys"]], "exptime": str(c["exptime"]), "noreply": False}
    if v == "delete":
        return {"verb": v, "key": list(c["key"]), "noreply": c["noreply"]}
    if v in ("incr", "decr"):
        return {"verb": v, "key": list(c["key"]), "delta": str(c["delta"]), "noreply": c["noreply"]}
    if v == "touch":
        return {"verb": v, "key": list(c["key"]), "exptime": str(c["exptime"]), "noreply": c["noreply"]}
    if v == "flush_all":
        return {"verb": v, "delay": str(c["delay"]), "noreply": c["noreply"]}
    if v == "stats":
        return {"verb": v, "keys": [list(k) for k in c["args"]], "exptime": "", "noreply": False}
    if v == "cache_memlimit":
        return {"verb": v, "limit": str(c["limit"]), "noreply": c["noreply"]}
    if v in ("version", "quit"):
        return {"verb": v, "noreply": c["noreply"]}
    if v == "shutdown":
        return {"verb": v, "graceful": c["graceful"], "noreply": False}
    return {"verb": "PARSE-ERROR", "why": "unexpected verb " + v}


def is_opaque(v):
    """buffer objects: what the client stores for them without a serializer is not claimed (today: the text of str(v))"""
    import array
    return isinstance(v, (bytearray, memoryview, array.array))


def value_bytes(v, encoding):
    if isinstance(v, bytes):
        return v
    return str(v).encode(encoding)


LEGAL_KEYS = ["k", b"k", "key:with:colons", b"\x01\x7f\x80\xff", "a" * 250, b"b" * 250]
ILLEGAL_KEYS = ["", b"", " ", b"\t", "\r\n", "a b", b"a b", " a", "a ", "a\r\nflush_all\r\n", b"k\r\nset x 0 0 1\r\nX",
                "a\nb", "a\x00b", b"\x00", "k\tk", "k\x0bk", b"k\x0ck", "c" * 251, b"d" * 300, "ké", "€uro"]
import array as _array
VALUES = [b"v", b"", b"x\r\nget k\r\n", b"END\r\n", b"VALUE k 0 1\r\nz\r\nEND\r\n", b"\x00\xff" * 3, b"A" * 5000,
          "text", 5, -17,
          bytearray(b"buf\r\n"), memoryview(b"view"), memoryview(_array.array("H", [258, 772, 1286])), _array.array("I", [1, 2, 3]),
          memoryview(b"abcdefgh")[::2]]
INT_OK = {"exp": [0, 1, -1, 2 ** 63 - 1, -(2 ** 63), 2592001], "flags": [None, 0, 1, 2 ** 32 - 1],
          "cas": [0, 1, U64 - 1, b"123", "456"], "delta": [0, 1, U64 - 1]}
INT_BAD = {"exp": ["10", 1.5, None, b"3"], "cas": ["abc", -1, 1.5, None, b"1 2", "12\n", b"12\n", b"7 noreply", "7\r\n", " 7", b""],
           "delta": ["1", 2.0, None]}

RAW_MAX = 12000

STORE1 = ["set", "add", "replace", "append", "prepend", "cas"]
SINGLE = ["get", "gets", "gat", "gats", "delete", "incr", "decr", "touch"]
MULTI = ["set_many", "get_many", "gets_many", "delete_many"]


class Case:
    def __init__(self, op, keys, value=b"v", exp=0, flags=None, cas=1, delta=1, nrarg="none", dnr=True,
                 stack="client", prefix=b"", unicode=False, encoding="ascii", badarg=False, serde="none", graceful=False):
        self.__dict__.update(locals())
        del self.__dict__["self"]


def run_case(c, stacks):
    from pymemcache.exceptions import MemcacheIllegalInputError
    net, cl = stacks(c)
    kw = {}
    if c.nrarg != "none":
        kw["noreply"] = c.nrarg == "true"
    op, keys = c.op, c.keys
    net.begin_call(1)
    net.wire_log.clear()
    outcome = None
    try:
        if op in STORE1:
            args = (keys[0], c.value) + ((c.cas,) if op == "cas" else ())
            getattr(cl, op)(*args, expire=c.exp, flags=c.flags, **kw)
        elif op == "set_many":
            cl.set_many({k: c.value for k in keys}, expire=c.exp, flags=c.flags, **kw)
        elif op in ("get", "gets"):
            getattr(cl, op)(keys[0])
        elif op in ("gat", "gats"):
            getattr(cl, op)(keys[0], expire=c.exp)
        elif op in ("get_many", "gets_many"):
            getattr(cl, op)(list(keys))
        elif op == "delete":
            cl.delete(keys[0], **kw)
        elif op == "delete_many":
            cl.delete_many(list(keys), **kw)
        elif op in ("incr", "decr"):
            getattr(cl, op)(keys[0], c.delta, **kw)
        elif op == "touch":
            cl.touch(keys[0], expire=c.exp, **kw)
        elif op == "flush_all":
            cl.flush_all(delay=c.exp, **kw)
        elif op == "stats":
            cl.stats(*keys)
        elif op == "cache_memlimit":
            cl.cache_memlimit(c.exp)
        elif op == "version":
            cl.version()
        elif op == "quit":
            cl.quit()
        elif op == "shutdown":
            cl.shutdown(graceful=c.graceful)
        else:
            raise ValueError(op)
    except MemcacheIllegalInputError:
        outcome = "illegal"
    except Exception as e:   # noqa
        outcome = "other:" + type(e).__name__
    except fakesock.WouldBlockForever:
        # the call waits for a reply the server was never asked to send (a noreply smuggled into the command): an outcome
        outcome = "other:WouldBlockForever"
    raw = b"".join(d for _, d in net.wire_log)
    if outcome != "illegal" and raw:
        outcome = "sent"
    elif outcome is None:
        outcome = "sent" if raw else "other:nothing-sent-nothing-raised"
    p = wire.Parser()
    cmds = [cmdrec(x) for x in p.feed(raw)]
    sflags = 0
    try:
        if c.serde == "pickle":
            from pymemcache import serde as S
            sv, sflags = S.pickle_serde.serialize(b"k", c.value)
            vb = sv if isinstance(sv, bytes) else str(sv).encode("ascii")
        else:
            vb = value_bytes(c.value, c.encoding)
    except Exception:
        vb = None
    nkeys = len(keys) if op in STORE1 + ["set_many"] else 0
    flags = c.flags if c.flags is not None else sflags      # an explicit flags argument (even 0) overrides the serializer's

    def dec(x):
        if isinstance(x, bytes):
            return x.decode("latin1")
        return str(x)
    # the arguments of stats are validated like keys but are not keys: no prefix applies to them
    ev = {"e": "call", "op": op, "stack": c.stack, "keys": [keyrec(k) for k in keys], "unicode": c.unicode, "graceful": c.graceful,
          "prefix": list(c.prefix) if op != "stats" else [], "nrarg": c.nrarg, "dnr": c.dnr, "exp": dec(c.exp), "flags": dec(flags),
          "cas": dec(c.cas), "delta": dec(c.delta), "badarg": c.badarg or vb is None,
          "data": [desc(vb) if vb is not None else "?"] * nkeys, "lens": [str(len(vb)) if vb is not None else "?"] * nkeys,
          "outcome": outcome, "nsent": len(raw), "cmds": cmds, "leftover": p.partial,
          "opaque": bool(nkeys) and is_opaque(c.value) and c.serde != "pickle"}
    # the bytes themselves, for the TLA+ tokenizer (spec/Proto.tla)
    ev["hasraw"] = len(raw) <= RAW_MAX
    ev["raw"] = list(raw) if ev["hasraw"] else []
    ev["vals"] = [list(vb)] * nkeys if (vb is not None and ev["hasraw"]) else []
    for name, x in (("expb", c.exp), ("flagsb", flags), ("casb", c.cas), ("deltab", c.delta)):
        ev[name] = list(dec(x).encode("latin1", "replace"))
    return ev


def gen_cases(tier, seed):
    rnd = random.Random(seed)
    cases = []
    stacks = ["client", "pooled", "hash"]
    prefixes = [b"", b"pfx:", b"p" * 249, b"bad pfx:", b"pf\r\nx:"]

    def cfgs():
        for st in stacks:
            for pf in prefixes:
                for uni in (False, True):
                    yield dict(stack=st, prefix=pf, unicode=uni)
    allkeys = LEGAL_KEYS + ILLEGAL_KEYS + ["ké", "漢字", "a" * 249, "b" * 246, b"c" * 245, "€" * 83, "€" * 84]
    # 1. every key-taking single-key op x key corpus x (stack, prefix, unicode)
    for op in STORE1 + SINGLE:
        for k in allkeys:
            for cf in cfgs():
                if tier == "quick" and rnd.random() < 0.6:
                    continue
                cases.append(Case(op, [k], nrarg=rnd.choice(["none", "true", "false"]), dnr=rnd.random() < 0.5,
                                  value=rnd.choice(VALUES[:6]), **cf))
    # 2. multi-key batches: an illegal key first / middle / last among legal ones
    for op in MULTI:
        for bad in ILLEGAL_KEYS + [None]:
            for pos in (0, 1, 2):
                for cf in cfgs():
                    if cf["prefix"] == prefixes[2] or (tier == "quick" and rnd.random() < 0.5):
                        continue
                    keys = ["k1", b"k2", "k3"]
                    if bad is not None:
                        if keyrec(bad)["isstr"] and bad == "" or bad == b"":
                            pass
                        keys[pos] = bad
                    if len({(kk if isinstance(kk, bytes) else kk.encode("utf8")) for kk in keys}) < 3:
                        continue
                    cases.append(Case(op, keys, nrarg=rnd.choice(["none", "true", "false"]), dnr=rnd.random() < 0.5, **cf))
    # 2b. large batches: one illegal key far into the batch still means nothing at all is sent
    for op in MULTI:
        for st in ("client", "pooled", "hash"):
            for n, pos in (((70, 66), (130, 129)) if tier == "quick" else ((130, 100), (130, 129), (65, 64), (300, 256))):
                for bad in (("bad key",) if tier == "quick" else ("bad key", b"bad\r\nkey", None)):
                    if tier == "quick" and st == "hash":
                        continue
                    keys = ["key%d" % i for i in range(n)]
                    if bad is not None:
                        keys[pos] = bad
                    cases.append(Case(op, keys, nrarg=rnd.choice(["none", "true", "false"]), dnr=rnd.random() < 0.5, stack=st))
    # 3. values with protocol text, all sizes, str/int values, encodings
    for op in STORE1 + ["set_many"]:
        for v in VALUES:
            for enc in ("ascii", "utf-8"):
                for st in stacks:
                    cases.append(Case(op, ["k"] if op != "set_many" else ["k1", "k2"], value=v, encoding=enc, stack=st,
                                      nrarg=rnd.choice(["none", "true", "false"])))
    for st in stacks:
        cases.append(Case("set", ["k"], value="héllo wörld", encoding="utf-8", stack=st))
        cases.append(Case("set", ["k"], value="héllo", encoding="ascii", stack=st, badarg=True))   # not encodable: input error
    # 4. integer arguments over the protocol's ranges; non-integers must be rejected before sending
    for st in stacks:
        for exp in INT_OK["exp"]:
            for op in ("set", "cas", "touch", "gat", "gats", "set_many"):
                cases.append(Case(op, ["k"], exp=exp, stack=st))
        for d in ([0, 5, 2 ** 31] if st != "hash" else [0]):
            cases.append(Case("flush_all", [], exp=d, stack=st, nrarg=rnd.choice(["none", "true", "false"])))
        for fl in INT_OK["flags"]:
            for op in STORE1 + ["set_many"]:
                cases.append(Case(op, ["k"], flags=fl, stack=st))
        for cas in INT_OK["cas"]:
            cases.append(Case("cas", ["k"], cas=cas, stack=st, nrarg=rnd.choice(["none", "true", "false"])))
        for d in INT_OK["delta"]:
            for op in ("incr", "decr"):
                cases.append(Case(op, ["k"], delta=d, stack=st, nrarg=rnd.choice(["none", "true", "false"])))
        for exp in INT_BAD["exp"]:
            for op in ("set", "add", "cas", "touch", "gat", "gats", "set_many"):
                cases.append(Case(op, ["k"], exp=exp, stack=st, badarg=True))
        for cas in INT_BAD["cas"]:
            cases.append(Case("cas", ["k"], cas=cas, stack=st, badarg=True))
        for d in INT_BAD["delta"]:
            for op in ("incr", "decr"):
                cases.append(Case(op, ["k"], delta=d, stack=st, badarg=True))
        if st != "hash":
            cases.append(Case("flush_all", [], exp="0", stack=st, badarg=True))
        # a non-integer is refused every time: also right after the integer it equals went through (30, then 30.0)
        for op in ("touch", "set", "gat"):
            cases.append(Case(op, ["k"], exp=30, stack=st))
            cases.append(Case(op, ["k"], exp=30.0, stack=st, badarg=True))
        cases.append(Case("incr", ["k"], delta=7, stack=st, nrarg="false"))
        cases.append(Case("incr", ["k"], delta=7.0, stack=st, badarg=True))
    # 4b. a serializer with its own flags, and explicit flags (0 included) overriding them
    for st in stacks:
        for op in STORE1 + ["set_many"]:
            for v in ("text", 12345, b"raw", ("tu", "ple")):
                for fl in (None, 0, 9, 2 ** 32 - 1):
                    cases.append(Case(op, ["k"] if op != "set_many" else ["k1", "k2"], value=v, flags=fl, stack=st, serde="pickle",
                                      nrarg=rnd.choice(["none", "true", "false"])))
        # cas tokens that look numeric to str.isdigit() but are not ASCII digits
        for cas in ("\u00b2", "\u0661\u0662\u0663", "\uff11\uff12", b"\xb2"):
            for enc in ("ascii", "utf-8", "latin-1"):
                cases.append(Case("cas", ["k"], cas=cas, stack=st, encoding=enc, badarg=True))
    # 4c. operations without keys, and stats arguments (validated like keys, never prefixed).  Sequences on ONE client that use
    # the same text as a stats argument / memory limit and as a key (the stack is shared by consecutive cases)
    for st in ("client", "pooled"):
        for pf in prefixes[:2]:
            for uni in (False, True):
                cf = dict(stack=st, prefix=pf, unicode=uni)
                for a in ([], ["items"], ["slabs"], ["settings"], ["cachedump", "1", "2"], ["a b"], ["x\r\nflush_all"], ["é"], [b"\x00"], ["i" * 251]):
                    cases.append(Case("stats", a, **cf))
                for seq in (["stats:items", "get:items", "set:items"], ["get:slabs", "stats:slabs", "delete:slabs"],
                            ["memlimit:64", "incr:64", "get:64"], ["touch:1024", "memlimit:1024", "stats:1024", "gets:1024"]):
                    for step in seq:
                        o, a = step.split(":")
                        if o == "memlimit":
                            cases.append(Case("cache_memlimit", [], exp=int(a), **cf))
                        elif o == "stats":
                            cases.append(Case("stats", [a], **cf))
                        else:
                            cases.append(Case(o, [a if len(cases) % 2 else a.encode()], nrarg="false", **cf))
                for lim in (0, 1, 2 ** 64 - 1):
                    cases.append(Case("cache_memlimit", [], exp=lim, **cf))
                for bad in ("64", 1.5, None):
                    cases.append(Case("cache_memlimit", [], exp=bad, badarg=True, **cf))
                cases.append(Case("version", [], **cf))
                for g in (False, True):
                    cases.append(Case("shutdown", [], graceful=g, **cf))
                cases.append(Case("quit", [], **cf))
    # 5. seeded random combinations
    for _ in range(600 if tier == "quick" else 20000):
        op = rnd.choice(STORE1 + SINGLE + MULTI)
        nk = 1 if op not in MULTI else rnd.choice([1, 2, 3, 5])
        keys = []
        while len(keys) < nk:
            k = rnd.choice(allkeys) if rnd.random() < 0.5 else "r%d" % rnd.randrange(1000)
            if k not in keys and (k.encode("utf8") if isinstance(k, str) else k) not in [
                    (x.encode("utf8") if isinstance(x, str) else x) for x in keys]:
                keys.append(k)
        cases.append(Case(op, keys, value=rnd.choice(VALUES), exp=rnd.choice(INT_OK["exp"]), flags=rnd.choice(INT_OK["flags"]),
                          cas=rnd.choice(INT_OK["cas"]), delta=rnd.choice(INT_OK["delta"]),
                          nrarg=rnd.choice(["none", "true", "false"]), dnr=rnd.random() < 0.5, stack=rnd.choice(stacks),
                          prefix=rnd.choice(prefixes[:2]), unicode=rnd.random() < 0.5,
                          encoding=rnd.choice(["ascii", "utf-8"])))
    return cases


def main(tier, rep):
    vclock.install()
    common.import_repo()
    from pymemcache.client.base import Client, PooledClient
    from pymemcache.client.hash import HashClient
    cache = {}

    def stacks(c):
        key = (c.stack, c.prefix, c.unicode, c.encoding, c.dnr, c.serde)
        if key not in cache:
            net = fakesock.FakeNet()
            net.add_server(("mc1", 11211))
            kw = dict(socket_module=net, key_prefix=c.prefix, allow_unicode_keys=c.unicode, encoding=c.encoding,
                      default_noreply=c.dnr)
            if c.serde == "pickle":
                from pymemcache import serde as S
                kw["serde"] = S.pickle_serde
            if c.stack == "client":
                cl = Client(("mc1", 11211), **kw)
            elif c.stack == "pooled":
                cl = PooledClient(("mc1", 11211), **kw)
            else:
                cl = HashClient([("mc1", 11211)], **kw)
            cache[key] = (net, cl)
        return cache[key]

    grammar_model(tier, rep)
    cases = gen_cases(tier, common.seed())
    evs = []
    allcases, cases = cases, []
    for c in allcases:
        if not hasattr(stacks(c)[1], c.op):
            continue                 # not part of this stack's public interface (e.g. PooledClient.cache_memlimit)
        cases.append(c)
        evs.append(run_case(c, stacks))
        # cases are independent: a call that left the connection out of sync (e.g. the known empty-key finding, whose
        # malformed noreply command the server answers with an error line nobody reads) must not leak into the next one
        net, cl = stacks(c)
        if any(p[1] or p[2] for p in net.boundary()):
            del cache[(c.stack, c.prefix, c.unicode, c.encoding, c.dnr, c.serde)]
    B = 400
    traces = [{"h": {"maxrej": B + 1}, "ev": evs[i:i + B]} for i in range(0, len(evs), B)]
    acc, rej, st, _ = tlc.validate_traces("WireTrace", traces, chunk=100)
    rep.set("traces_validated_against_impl", len(evs))
    rep.set("trace_states", st)
    for ti, lst in sorted(rej.items()):
        for pos, clauses in lst:
            i = ti * B + pos - 1
            ev, c = evs[i], cases[i]
            cl = ",".join(sorted(x.strip().strip('"') for x in clauses.strip("{}").split(",")))
            empties = [k for k in ev["keys"] if not k["u"]]
            if empties and not ev["prefix"] and not ev["badarg"] and all(
                    (not k["u"]) or _legal(k, ev) for k in ev["keys"]):
                sig = "C02/empty-key-accepted-and-sent"
            else:
                kclass = "keys:" + "|".join(_kclass(k) for k in ev["keys"][:3])
                sig = f"C02/{ev['stack']}/{ev['op']}/{cl}/{kclass}"
            rep.violation(sig, f"{ev['stack']}.{ev['op']}(keys={c.keys!r:.80}, value={c.value!r:.30}, exp={c.exp!r}, flags={c.flags!r}, "
                               f"cas={c.cas!r}, delta={c.delta!r}, noreply={c.nrarg}) -> {ev['outcome']}, {ev['nsent']} bytes sent, "
                               f"parsed {ev['cmds'][:2]}: {cl}", {"event": ev})
    # code -> spec on executions the harness did not design: what the repository's own integration tests wrote
    from drivers import repoit
    repoit.wire_part(rep, PROP)
    rep.set("evaluations", len(evs))
    rep.set("distinct_nontrivial", len({(e["op"], e["stack"], str(e["keys"]), e["exp"], e["flags"], e["cas"], e["delta"], e["nrarg"],
                                         str(e["data"])) for e in evs if e["nsent"] or e["outcome"] == "illegal"}))
    rep.set("rule", "one call per (operation, key list, value, integer arguments, noreply, default_noreply, stack, prefix, unicode, encoding) "
                    "from the structured grids and the seeded random combinations; non-trivial = something was sent or an input error was raised; "
                    "distinct by those arguments")
    for i in (3, len(evs) // 2, len(evs) - 5):
        e = dict(evs[i])
        e["keys"] = e["keys"][:2]
        rep.sample(e)
    rep.assumptions += ["lib/wire.py is the strict parser (memcached's tokenizer: line at LF, split at spaces, exact data block + CRLF)",
                        "data blocks are compared through (length, sha256) descriptors; flags are exercised with integers only",
                        "bool is not treated as a non-integer"]


def protorec(c):
    """a lib/wire.py command in the all-bytes record shape of spec/Proto.tla"""
    if "error" in c:
        return {"verb": "PARSE-ERROR"}
    v = c["verb"].decode("latin1")
    num = lambda x: list(str(x).encode())   # noqa
    if c["verb"] in wire.STORAGE:
        return {"verb": v, "key": list(c["key"]), "flags": num(c["flags"]), "exptime": num(c["exptime"]), "data": list(c["data"]),
                "noreply": c["noreply"], "cas": num(c["cas"]) if "cas" in c else []}
    if v in ("get", "gets"):
        return {"verb": v, "keys": [list(k) for k in c["keys"]], "exptime": [], "noreply": False}
    if v in ("gat", "gats"):
        return {"verb": v, "keys": [list(k) for k in c["keys"]], "exptime": num(c["exptime"]), "noreply": False}
    if v == "delete":
        return {"verb": v, "key": list(c["key"]), "noreply": c["noreply"]}
    if v in ("incr", "decr"):
        return {"verb": v, "key": list(c["key"]), "delta": num(c["delta"]), "noreply": c["noreply"]}
    if v == "touch":
        return {"verb": v, "key": list(c["key"]), "exptime": num(c["exptime"]), "noreply": c["noreply"]}
    if v == "flush_all":
        return {"verb": v, "delay": num(c["delay"]), "noreply": c["noreply"]}
    if v == "stats":
        return {"verb": v, "keys": [list(k) for k in c["args"]], "exptime": [], "noreply": False}
    if v == "cache_memlimit":
        return {"verb": v, "limit": num(c["limit"]), "noreply": c["noreply"]}
    if v in ("version", "quit"):
        return {"verb": v, "noreply": c["noreply"]}
    if v == "shutdown":
        return {"verb": v, "graceful": c["graceful"], "noreply": False}
    return {"verb": "PARSE-ERROR"}


def grammar_model(tier, rep):
    """spec/ProtoMC.tla: the request grammar is unambiguous (RoundTrip, Concatenation, Prefix) and a space / LF in a key
    breaks it (Injection); every universe member is exported with its bytes and what Proto.tla's tokenizer reads, and the
    harness's own Python parser (lib/wire.py, the reference server's reader) must read the same."""
    keylen = 1 if tier == "quick" else 2
    r = tlc.run("ProtoMC", cfg_text=f"SPECIFICATION Spec\nCONSTANTS\n  KeyLen = {keylen}\nINVARIANT RoundTrip\nINVARIANT Concatenation\n"
                                     "INVARIANT Injection\nINVARIANT Prefix\nCHECK_DEADLOCK FALSE\n", workers=16, timeout=3000)
    if r.error:
        raise common.MachineryError(r.error)
    if not r.ok:
        rep.violation("C02/model/" + ",".join(r.invariants_violated), "the protocol grammar of spec/Proto.tla is not what ProtoMC states",
                      tlc.first_error_trace(r))
    rows = r.json_lines("EXP")
    if len(rows) < 1000:
        raise common.MachineryError("ProtoMC exported %d rows" % len(rows))
    rep.set("states", r.distinct)
    rep.set("transitions", r.generated)
    rep.set("checker_cmd", r.cmd)
    bad = 0
    for row in rows:
        p = wire.Parser()
        got = [protorec(x) for x in p.feed(bytes(row["bytes"]))]
        want = [({"verb": "PARSE-ERROR"} if x["verb"] == "PARSE-ERROR" else x) for x in row["tok"]["cmds"]]
        if got != want or (p.partial == 0) != (row["tok"]["left"] == 0):
            bad += 1
            if bad <= 3:
                raise common.MachineryError("lib/wire.py and spec/Proto.tla read %r differently: %r vs %r" % (bytes(row["bytes"]), got, want))
    rep.set("grammar_universe_cross_checked_with_python_parser", len(rows))


def _legal(k, ev):
    b = bytes(k["u"]) if not k["isstr"] else "".join(map(chr, k["u"])).encode("utf8")
    return 0 < len(ev["prefix"]) + len(b) <= 250 and not any(x in b for x in b" \t\r\n\x0b\x0c\x00")


def _kclass(k):
    u = k["u"]
    if not u:
        return "empty"
    if len(u) > 250:
        return "long"
    s = "".join("W" if x in (32, 9, 10, 13, 11, 12) else "0" if x == 0 else "u" if x > 127 else "a" for x in u[:6])
    return ("s:" if k["isstr"] else "b:") + s
