"""C13 -- HashClient failover: bounded probing, eviction, rerouting, recovery.

TLC explores the as-coded failover model spec/HashFailover.tla (the timed per-server state machine
of _get_client/_retry_dead, _safely_run_func, _mark_failed_server, remove_server; saturating ages)
against the contract monitor spec/FailoverRule.tla for every history of {key-addressed call, clock
tick, server starts/stops failing with an OSError-class or MemcacheError-class error} -- quick:
all histories to depth 13 for retry_attempts 0/1/2 x ignore_exc; thorough: the complete reachable
state space (millions of states) -- and exports behaviours.  Each is replayed into the real
HashClient (scripted client_class keyed by server address, placement through the hasher= seam,
virtual clock; get / set / get_many / set_many / delete rotate as the key-addressed call) and every
recorded execution -- plus seeded random histories of length 60..120 with 2-3 servers -- is
validated by TLC against the contract (spec/FailoverTrace.tla)."""
import random

from lib import common, tlc, vclock

PROP = "C13"


class Env:
    """health of every server, shared by the scripted clients"""

    def __init__(self, n):
        self.health = {i: "up" for i in range(1, n + 1)}
        self.events = []
        self.xid = 0
        self.raised = {}


class MemcacheLike(Exception):
    pass


def make_client_class(env, addr2id):
    from pymemcache.exceptions import MemcacheServerError, MemcacheUnknownError

    class ScriptedClient:
        def __init__(self, server, **kw):
            self.server = server
            self.sid = addr2id[server]
            # like the real Client: with ignore_exc a failing READ is reported as a miss instead of raising
            self.ignore_exc = bool(kw.get("ignore_exc", False))

        def _do(self, key, result, miss=NotImplemented):
            h = env.health[self.sid]
            kid = env.key_of(key)
            if h == "up":
                env.events.append({"e": "contact", "s": self.sid, "k": kid, "ok": True, "os": False, "x": 0})
                return result
            env.xid += 1
            if h == "os":
                exc = ConnectionResetError("down %d" % env.xid)
            elif env.xid % 2:
                exc = MemcacheServerError("out of memory storing object %d" % env.xid)    # an error line the server ANSWERED with
            else:
                exc = MemcacheUnknownError("bad %d" % env.xid)
            if env.xid % 4 == 0 and h == "os":
                import socket
                exc = socket.timeout("timed out %d" % env.xid)
            elif env.xid % 4 == 1 and h == "os":
                import errno
                exc = OSError(errno.EHOSTUNREACH, "No route to host %d" % env.xid)     # a connection-level error that is no ConnectionError
            elif env.xid % 4 == 2 and h == "os":
                import socket
                exc = socket.gaierror(-2, "Name or service not known %d" % env.xid)
            env.raised[id(exc)] = env.xid
            env.keep.append(exc)
            env.events.append({"e": "contact", "s": self.sid, "k": kid, "ok": False, "os": h == "os", "x": env.xid})
            if self.ignore_exc and miss is not NotImplemented:
                return miss
            raise exc

        def get(self, key, default=None, **kw):
            return self._do(key, b"v", miss=default)

        def set(self, key, value, *a, **kw):
            return self._do(key, True)

        def delete(self, key, *a, **kw):
            return self._do(key, True)

        def incr(self, key, *a, **kw):
            return self._do(key, 1)

        def get_many(self, keys, *a, **kw):
            return self._do(keys[0], {k: b"v" for k in keys}, miss={})

        def gets_many(self, keys, *a, **kw):
            return self._do(keys[0], {k: (b"v", b"1") for k in keys}, miss={})

        def set_many(self, values, *a, **kw):
            return self._do(next(iter(values)), [])

        def close(self):
            pass
    return ScriptedClient


def make_real_client_class(env, addr2id):
    """the REAL Client on the fake network, observed at the same seam as the scripted one: every invocation of a per-server
    client is a contact; whether the server was reachable is what the ENVIRONMENT says (its health at that moment), not what
    kind of exception the client chose to raise"""
    from pymemcache.client.base import Client

    class TracedClient(Client):
        def __init__(self, server, **kw):
            super().__init__(server, **kw)
            self.sid = addr2id[server]

    def traced(name):
        orig = getattr(Client, name)

        def method(self, first, *a, **kw):
            h = env.health[self.sid]
            key = first[0] if isinstance(first, (list, tuple)) else next(iter(first)) if isinstance(first, dict) else first
            kid = env.key_of(key)
            try:
                r = orig(self, first, *a, **kw)
            except Exception as e:   # noqa
                env.xid += 1
                env.raised[id(e)] = env.xid
                env.keep.append(e)
                env.events.append({"e": "contact", "s": self.sid, "k": kid, "ok": False, "os": h == "os", "x": env.xid})
                raise
            if h == "up":
                env.events.append({"e": "contact", "s": self.sid, "k": kid, "ok": True, "os": False, "x": 0})
            else:
                env.xid += 1        # the failure was swallowed inside the per-server client
                env.events.append({"e": "contact", "s": self.sid, "k": kid, "ok": False, "os": h == "os", "x": env.xid})
            return r
        method.__name__ = name
        return method
    for nm in ("get", "set", "delete", "incr", "get_many", "gets_many", "set_many"):
        setattr(TracedClient, nm, traced(nm))
    return TracedClient


def make_hasher(env, n, names):
    class PrefHasher:
        """key k<i> prefers server i, i+1, ... cyclically; lives on the first one in rotation"""

        def __init__(self):
            self.nodes = []

        def add_node(self, node):
            if node not in self.nodes:
                self.nodes.append(node)
                env.events.append({"e": "add", "s": names.index(node) + 1})

        def remove_node(self, node):
            if node not in self.nodes:
                raise ValueError("No such node %s to remove" % node)
            self.nodes.remove(node)
            env.events.append({"e": "rm", "s": names.index(node) + 1})

        def get_node(self, key):
            k = env.key_of(key)
            for i in range(n):
                cand = names[(k - 1 + i) % n]
                if cand in self.nodes:
                    return cand
            return None
    return PrefHasher


def replay(hist, n, ra, rt, dt, ignore_exc, variant, unix=False, real=False, fixed_op=None):
    """unix: the servers are UNIX-socket paths (plain strings) instead of (host, port) pairs.  real: the per-server clients are
    the real Client on the fake network (a server that is "os" refuses connections or hangs, one that is "mc" answers every
    command with SERVER_ERROR); otherwise scripted clients"""
    from pymemcache.client.hash import HashClient
    from pymemcache.exceptions import MemcacheError
    env = Env(n)
    env.keep = []
    env.key_of = lambda key: int((key.decode() if isinstance(key, bytes) else key).split("-")[0][1:])
    if unix:
        servers = ["/var/run/memcached/mc%d.sock" % i for i in range(1, n + 1)]
        names = list(servers)
    else:
        servers = [("10.0.0.%d" % i, 11211) for i in range(1, n + 1)]
        names = ["%s:%s" % s for s in servers]
    addr2id = {s: i + 1 for i, s in enumerate(servers)}
    vclock.set_now(5_000_000)
    extra = {}
    net = None
    if real:
        from lib import fakesock, refserver
        net = fakesock.FakeNet()
        net.begin_call(1, None, "all")
        for s_ in servers:
            srv = net.add_server(s_)
            srv.mode = "up"
            for k in range(1, n + 1):
                for suffix in ("x", "y", "z", "m0", "m1", "m2"):
                    srv.store[("k%d-%s" % (k, suffix)).encode()] = refserver.Item(b"1", 0, 0, srv._next_cas())
        # (every operation waits for its reply: a fire-and-forget write to a server that hangs cannot fail)
        extra = dict(socket_module=net, timeout=1, connect_timeout=1, default_noreply=False)
        cls = make_real_client_class(env, addr2id)
    else:
        cls = make_client_class(env, addr2id)
    HashClient.client_class = cls
    try:
        hc = HashClient(servers, hasher=make_hasher(env, n, names), retry_attempts=ra, retry_timeout=rt, dead_timeout=dt,
                        ignore_exc=ignore_exc, **extra)
    finally:
        from pymemcache.client.base import Client
        HashClient.client_class = Client
    hc.client_class = cls     # for clients re-created on revival
    env.events.clear()           # construction adds the nodes: the monitor starts with all servers in rotation
    out = []
    ncall = 0
    for step in hist:
        if step[0] == "tick":
            vclock.advance(1)
            out.append({"e": "tick", "d": 1})
        elif step[0] == "health":
            env.health[step[1]] = step[2]
            if real:
                # unreachable = refuses connections (and resets the open one), or takes requests and never answers
                net.servers[servers[step[1] - 1]].mode = {"up": "up", "mc": "mcerr"}.get(step[2]) or ["refuse", "hang"][(variant + len(out)) % 2]
        elif step[0] == "close":
            # (not used by the generated histories: close() goes through the same failover wrapper as a call -- it can take a
            # server out, and a close() that "succeeds" on a failing server clears its failure record -- so histories with
            # close() in them leave the alphabet the property quantifies over; see DESIGN 8.3)
            del env.events[:]
            hc.close()
            out += [e for e in env.events if e.get("e") in ("add", "rm")]
        elif step[0] == "remove_server":
            # the caller uses the public remove_server() on a server that has not failed: whether the library accepts that or
            # raises, a call that fails must not have changed the rotation (the hasher seam reports an `rm` if it did)
            sid = step[1]
            last = [e for e in out if e.get("e") == "contact" and e.get("s") == sid]
            records = getattr(hc, "_failed_clients", None)      # only used to choose when to try this step
            if records is not None and servers[sid - 1] not in records and (not last or last[-1]["ok"]) \
                    and any(names[sid - 1] == nn for nn in hc.hasher.nodes):
                del env.events[:]
                try:
                    hc.remove_server(servers[sid - 1])
                except Exception:   # noqa
                    pass
                out += env.events       # an `rm` reported by the hasher seam here is judged by the contract
        elif len(step) > 2:
            # a multi-key call whose keys prefer different servers
            ks = list(step[1:])
            ncall += 1
            op = ["set_many", "get_many", "gets_many"][(variant + ncall) % 3]
            out.append({"e": "call", "keys": ks, "op": op})
            del env.events[:]
            names_ = ["k%d-m%d" % (k, i) for i, k in enumerate(ks)]
            res = None
            try:
                if op == "set_many":
                    hc.set_many({n_: b"v" for n_ in names_})
                elif op == "get_many":
                    res = hc.get_many(names_)
                else:
                    res = hc.gets_many(names_)
            except Exception as e:   # noqa
                out += env.events
                x = env.raised.get(id(e))
                out.append(raise_event(x, e))
            else:
                out += env.events
                out.append(ret_event(env, None if real else res))
        else:
            k = step[1]
            ncall += 1
            key = "k%d-x" % k
            op = fixed_op or ["get", "set", "get_many", "set_many", "delete", "incr", "get_many1", "gets_many1"][(variant + ncall) % 8]
            out.append({"e": "call", "keys": [k], "op": op})
            del env.events[:]
            res1 = None
            try:
                if op == "get":
                    hc.get(key)
                elif op == "set":
                    hc.set(key, b"v")
                elif op == "get_many":
                    res1 = hc.get_many([key, "k%d-y" % k])
                elif op == "get_many1":
                    hc.get_many([key])                 # a batch of one
                elif op == "gets_many1":
                    hc.gets_many([key])
                elif op == "set_many":
                    hc.set_many({key: b"v", "k%d-z" % k: b"w"})
                elif op == "delete":
                    hc.delete(key)
                else:
                    hc.incr(key, 1)
            except MemcacheError as e:
                out += env.events
                x = env.raised.get(id(e))
                out.append(raise_event(x, e))
            except Exception as e:   # noqa
                out += env.events
                x = env.raised.get(id(e))
                out.append(raise_event(x, e, allow_all=False))
            else:
                out += env.events
                out.append(ret_event(env, res1 if op == "get_many" and not real else None))
    return {"h": {"n": n, "ra": ra, "rt": rt, "dt": dt, "ignore_exc": ignore_exc, "maxrej": 4}, "ev": out,
            "hist": hist, "variant": variant, "unix": unix, "real": real}


def raise_event(x, e, allow_all=True):
    if x is not None:
        return {"e": "raise", "x": x, "xs": "id"}
    if allow_all and "All servers" in str(e):
        return {"e": "raise", "x": 0, "xs": "all"}
    return {"e": "raise", "x": 0, "xs": "other:" + type(e).__name__}


def ret_event(env, res):
    """a multi-key read also reports which keys it returned (as key ids); the dict is the caller's: it is written to"""
    if not isinstance(res, dict):
        return {"e": "ret"}
    found = sorted({env.key_of(k) for k in res if isinstance(k, (str, bytes)) and str(k if isinstance(k, str) else k.decode())[:1] == "k"})
    junk = [k for k in res if not (isinstance(k, (str, bytes)) and str(k if isinstance(k, str) else k.decode())[:1] == "k")]
    res["caller-wrote-this"] = 1
    return {"e": "ret", "found": found + ([0] if junk else [])}


def random_hist(rnd, n, length):
    h = []
    for _ in range(length):
        r = rnd.random()
        if r < 0.03:
            h.append(["remove_server", rnd.randrange(1, n + 1)])
        elif r < 0.1:
            a, b = rnd.sample(range(1, n + 1), 2)
            h.append(["call", a, b])
        elif r < 0.45:
            h.append(["call", rnd.randrange(1, n + 1)])
        elif r < 0.8:
            h.append(["tick"])
        else:
            h.append(["health", rnd.randrange(1, n + 1), rnd.choice(["up", "os", "os", "mc"])])
    return h


def targeted_hists():
    """deterministic histories around the eviction and revival instants (what random histories only sample): server 1 fails,
    uses up its retries, a gap of G ticks passes BEFORE the evicting call, the next calls follow at once / exactly at /
    just after dead_timeout; then the server either stays down or has recovered"""
    out = []
    for ra in (0, 1, 2):
        for rt, dt in ((1, 2), (1, 4), (2, 6)):
            for gap in (0, dt - 1, dt, dt + 1, 2 * dt + 1):
                for back in ("down", "up-at-once", "up-late"):
                    for wait in (dt - 1, dt, dt + 1):
                        h = [["health", 1, "os"], ["call", 1]]
                        for _ in range(ra):
                            h += [["tick"]] * (rt + 1) + [["call", 1]]
                        h += [["tick"]] * max(gap, rt + 1) + [["call", 1]]          # the evicting call (or the last retry)
                        if back == "up-at-once":
                            h.append(["health", 1, "up"])
                        h += [["call", 1], ["call", 2]]
                        h += [["tick"]] * wait + [["call", 2], ["call", 1]]
                        if back == "up-late":
                            h.append(["health", 1, "up"])
                        for _ in range(ra + 3):
                            h += [["tick"]] * (rt + 1) + [["call", 1]]
                        h += [["tick"]] * dt + [["call", 1], ["tick"], ["call", 1]] + [["tick"]] * (dt + 1) + [["call", 1], ["call", 2]]
                        out.append((2, ra, rt, dt, h))
    return out


def main(tier, rep):
    vclock.install()
    common.import_repo()
    rnd = random.Random(common.seed())
    traces = []
    configs = [(2, ra, 1, 2, ign) for ra in (0, 1, 2) for ign in (False, True)] + [(2, 1, 1, 6, False), (2, 2, 1, 8, True)]
    depth = 11 if tier == "quick" else 14
    for (n, ra, rt, dt, ign) in configs:
        cfg = f"""SPECIFICATION Spec
CONSTANTS
  NS = {n}
  RA = {ra}
  RT = {rt}
  DT = {dt}
  IgnoreExc = {'TRUE' if ign else 'FALSE'}
  Export = TRUE
  MaxDepth = {depth}
  MultiKey = TRUE
VIEW view
INVARIANT MonitorOK
CHECK_DEADLOCK FALSE
"""
        r = tlc.run("HashFailover", cfg_text=cfg, workers=16, timeout=3000)
        if r.error:
            raise common.MachineryError(r.error)
        if not r.ok:
            rep.violation(f"C13/model/ra{ra}/" + ",".join(r.invariants_violated),
                          "as-coded failover model violates the contract", tlc.first_error_trace(r))
        rep.add("states", r.distinct)
        rep.add("transitions", r.generated)
        rep.set("checker_cmd", r.cmd)
        beh = [b["hist"] for b in r.json_lines("EXP")]
        rep.add("model_behaviours_exported", len(beh))
        cap = 500 if tier == "quick" else 20000
        if len(beh) > cap:
            beh = rnd.sample(beh, cap)
        for i, h in enumerate(beh):
            traces.append(replay(h, n, ra, rt, dt, ign, i))
    if tier == "thorough":
        # the complete reachable state space of the as-coded model (no depth bound)
        for ra in (0, 1, 2):
            cfg = f"""SPECIFICATION Spec
CONSTANTS
  NS = 2
  RA = {ra}
  RT = 1
  DT = 2
  IgnoreExc = FALSE
  Export = FALSE
  MaxDepth = 1000000
  MultiKey = FALSE
VIEW view
INVARIANT MonitorOK
CHECK_DEADLOCK FALSE
"""
            r = tlc.run("HashFailover", cfg_text=cfg, workers=16, timeout=7000)
            if r.error:
                raise common.MachineryError(r.error)
            if not r.ok:
                rep.violation(f"C13/model-full/ra{ra}/" + ",".join(r.invariants_violated),
                              "as-coded failover model violates the contract", tlc.first_error_trace(r))
            rep.add("states", r.distinct)
            rep.add("transitions", r.generated)
            rep.set("exhaustive_model_ra%d" % ra, r.distinct)
    nmodel = len(traces)
    # seeded random long histories, 2 and 3 servers, other timeouts
    for i in range(150 if tier == "quick" else 4000):
        n = rnd.choice([2, 3])
        ra = rnd.choice([0, 1, 2])
        rt, dt = rnd.choice([(1, 2), (2, 4), (1, 3), (1, 6), (1, 9), (2, 9)])
        traces.append(replay(random_hist(rnd, n, rnd.randrange(60, 121)), n, ra, rt, dt, rnd.random() < 0.5, i,
                             unix=(i % 5 == 1), real=(i % 5 == 2)))
    tg = targeted_hists()
    for i, (n, ra, rt, dt, h) in enumerate(tg):
        # a quarter with UNIX-socket servers, a quarter on the real Client + fake network, a quarter with one and the same
        # operation throughout (a workload of nothing but set_many, or get_many, ... must revive a server just the same)
        fixed = [None, "set_many", "get_many", "get", "gets_many1", "delete", "set", "incr"][(i // 4) % 8] if i % 4 == 1 else None
        traces.append(replay(h, n, ra, rt, dt, (i // 2) % 2 == 1, i, unix=(i % 4 == 2), real=(i % 4 == 3), fixed_op=fixed))
    rep.set("targeted_eviction_revival_histories", len(tg))
    rep.set("executions_on_the_real_client_and_fake_network", sum(1 for t in traces if t.get("real")))
    acc, rej, st, _ = tlc.validate_traces("FailoverTrace", [{"h": t["h"], "ev": t["ev"]} for t in traces], chunk=2500)
    rep.set("traces_validated_against_impl", len(traces))
    rep.set("trace_states", st)
    for i, lst in sorted(rej.items()):
        t = traces[i]
        pos, clauses = lst[0]
        cl = ",".join(sorted(x.strip().strip('"') for x in clauses.strip("{}").split(",")))
        ev = t["ev"][pos - 1]
        callop = next((e.get("op") for e in reversed(t["ev"][:pos]) if e["e"] == "call"), "?")
        rep.violation(f"C13/ra{t['h']['ra']}/{'ignore_exc' if t['h']['ignore_exc'] else 'raise'}/{callop}/{cl}",
                      f"config {t['h']}: history {t['hist'][:40]}: event {pos} {ev} rejected: {cl}",
                      {"header": t["h"], "history": t["hist"], "events": t["ev"][max(0, pos - 15): pos + 1]})
    rep.set("evaluations", len(traces))
    rep.set("distinct_nontrivial", len({(str(t["hist"]), str(t["h"])) for t in traces if any(s[0] == "health" for s in t["hist"])}))
    rep.set("rule", "one execution per history (TLC-exported behaviours of the bounded model; seeded random histories); "
                    "non-trivial = some server changes health; distinct by (configuration, history)")
    rep.sample({"header": traces[3]["h"], "history": traces[3]["hist"], "events": traces[3]["ev"][:6]})
    rep.sample({"header": traces[-1]["h"], "history": traces[-1]["hist"][:12]})
    rep.assumptions += ["'failing' = the server's client raises OSError; other error kinds only have to escape unchanged",
                        "time advances in unit ticks; broadcast operations (flush_all, stats, quit, close) are not key-addressed and are excluded",
                        "multi-key calls of the replay carry keys of one owner (routing of mixed batches is C12's subject)"]
