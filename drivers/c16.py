"""C16 -- PooledClient, single-server HashClient and RetryingClient behave like Client.

The abstract-cache histories exported by TLC from spec/Cache.tla (every server state: hit, miss, cas
mismatch, non-numeric, expired ...) plus calls exercising the configuration options are executed on a
plain Client and, identically configured, on PooledClient, HashClient with one server (pooled and
not) and RetryingClient (attempts 1 and 2) -- over the configuration grid key_prefix x
default_noreply x encoding x allow_unicode_keys x serializer x timeouts.  TLC decides, per call,
with spec/WrapRule.tla: same parsed command stream at the reference server, same result or same
kind of error, same socket options / timeouts on the connection that carried it; every wrapper
execution is additionally validated against the abstract cache (spec/CacheTrace.tla)."""
import itertools
import random

from lib import common, tlc, vclock
from drivers import cachelib as CL
from drivers import c05

PROP = "C16"
STACKS = ["pooled", "hash", "hashpooled", "retrying", "retrying2", "hashrec", "hashpooledrec"]


def extra_events():
    return [{"e": "op", "op": o, "k": "", "v": [], "exp": 0, "nr": False, "cas": 0, "delta": 0, "keys": [], "items": []}
            for o in ("set-strval", "set-intval", "set-ukey", "get-ukey", "set-flags", "touch-kw", "gat-kw", "get-many-empty",
                      "set-empty", "getitem-empty", "setitem", "getitem", "delitem", "getitem-miss", "set-none", "get-none",
                      "set-2char", "get-2char", "get-2byte", "gets-kwdefaults-miss", "gats-kwdefaults-miss", "incr-kwkey",
                      "append-exp-flags", "prepend-exp-flags", "set-tupleval", "get-tuple-default", "set-prefix-alias", "get-prefix-alias",
                      "get-many-prefix-alias", "delete-many-absent-first",
                      "set-flags0", "add-flags0", "replace-flags0", "setmany-flags0", "cas-flags0", "get-flags0")]


def configs(tier, rnd):
    from pymemcache import serde as S
    grid = list(itertools.product([b"", b"pfx:"], [True, False], ["ascii", "utf-8"], [False, True],
                                  ["none", "pickle"], [(3, 7), (None, None), (5, 2)]))
    rnd.shuffle(grid)
    for prefix, dn, enc, uni, sd, (ct, t) in (grid if tier == "thorough" else grid[:16]):
        kw = dict(encoding=enc, allow_unicode_keys=uni, connect_timeout=ct, timeout=t)
        if sd == "pickle":
            kw["serde"] = S.pickle_serde
        yield prefix, dn, kw


def make(kind, dn, prefix, kw):
    return CL.make_stack(kind if kind != "retrying2" else "retrying", default_noreply=dn, key_prefix=prefix, **kw)


def main(tier, rep):
    vclock.install()
    common.import_repo()
    rnd = random.Random(common.seed())
    hs = CL.export_histories(rep, 2)
    rnd.shuffle(hs)
    sims = CL.random_histories(60 if tier == "quick" else 1500, 30, common.seed() + 5)
    evs, wrapper_traces = [], []
    nh = 0
    cfgs = list(configs(tier, rnd))
    per_cfg = (60 if tier == "quick" else 400)
    for ci, (prefix, dn, kw) in enumerate(cfgs):
        sample = CL.probe_histories() + hs[ci * per_cfg: (ci + 1) * per_cfg] + sims[ci::len(cfgs)]
        for hi, h in enumerate(sample):
            stack = STACKS[(hi + ci) % len(STACKS)]
            extra = extra_events() if hi % 4 == 0 else []
            if stack in ("hash", "hashpooled", "hashrec", "hashpooledrec"):
                # HashClient does not offer item-style access (c[k], c[k] = v, del c[k])
                extra = [e for e in extra if e["op"] not in ("setitem", "getitem", "delitem", "getitem-miss", "getitem-empty")]
            hist = list(h) + extra
            variant = (hi * 2 + ci) * 2        # even: the noreply argument is left to the defaults where possible
            skw = dict(kw)
            if stack.endswith("rec"):
                # a HashClient whose server has failed once before every call and is being retried by it (retry_timeout elapsed):
                # the code path "retrying failed server" must send and return what the ordinary path does
                hist = [x for e in hist for x in (([{"e": "tick", "d": 2}] if e["e"] == "op" else []) + [e])]
            ref = CL.replay_history("client", hist, variant, dn=dn, prefix=prefix, **skw)
            if stack.endswith("rec"):
                got = CL.replay_history(stack[:-3], hist, variant, dn=dn, prefix=prefix, recover=True, retry_attempts=10 ** 6, **skw)      # (never given up on)
                attempts = 1
            elif stack == "retrying2":
                got = replay_with(CL, "retrying", hist, variant, dn, prefix, skw, attempts=2)
                attempts = 2
            else:
                got = CL.replay_history(stack, hist, variant, dn=dn, prefix=prefix, **skw)
                attempts = 1
            nh += 1
            got["pickled"] = "serde" in kw
            wrapper_traces.append(got)
            for a, b in zip(ref["ev"], got["ev"]):
                if a["e"] != "op":
                    continue
                evs.append({"e": "cmp", "op": a["op"], "attempts": attempts, "stack": stack,
                            "ref": {"cmds": a["cmds"], "res": a["res"], "conn": a["conn"]},
                            "got": {"cmds": b["cmds"], "res": b["res"], "conn": b["conn"]},
                            "cfg": {"prefix": prefix.decode(), "dn": dn, **{k: (v if isinstance(v, (bool, int, str)) else str(v)) for k, v in kw.items()}}})
    # construction with the shared options spelled in unusual ways (str prefixes, non-ASCII prefixes): the wrapper is built
    # or refused exactly like the plain Client, and a first exchange sends the same bytes
    def construct(kind, prefix, uni, enc):
        try:
            net, srv, cl = make(kind, False, prefix, dict(allow_unicode_keys=uni, encoding=enc))
        except Exception as e:   # noqa
            return {"cmds": [], "res": {"t": "exc", "x": type(e).__name__}, "conn": {"io": [], "est": []}}
        net.begin_call(1)
        try:
            r = cl.set("k", b"v", noreply=False)
            res = {"t": "bool", "b": bool(r)}
        except Exception as e:   # noqa
            res = {"t": "exc", "x": type(e).__name__}
        return {"cmds": [CL.canon_cmd(c) for c in net.sent_cmds], "res": res, "conn": {"io": [], "est": []}}
    for prefix in ("pfx:", "pr\u00e9fix:", "\u20acuro:", b"pr\xc3\xa9:", b"", "p x:"):
        for uni in (False, True):
            for enc in ("ascii", "utf-8"):
                ref = construct("client", prefix, uni, enc)
                for stack in ("pooled", "hash", "hashpooled", "retrying"):
                    evs.append({"e": "cmp", "op": "construct", "attempts": 1, "stack": stack, "ref": ref,
                                "got": construct(stack, prefix, uni, enc),
                                "cfg": {"prefix": repr(prefix), "allow_unicode_keys": uni, "encoding": enc}})
    # every combination of the two timeouts, given or left out: the wrapper connects and talks under the same ones
    def first_exchange(kind, ct, t, extra):
        kw = dict(extra, leave_timeouts_unset=True)
        if ct != "unset":
            kw["connect_timeout"] = ct
        if t != "unset":
            kw["timeout"] = t
        try:
            net, srv, cl = CL.make_stack(kind, default_noreply=False, key_prefix=b"", **kw)
        except Exception as e:   # noqa
            return {"cmds": [], "res": {"t": "exc", "x": type(e).__name__}, "conn": {"io": [], "est": []}}
        net.begin_call(1)
        mark = len(net.log)
        try:
            r = cl.set("k", b"v", noreply=False)
            res = {"t": "bool", "b": bool(r)}
        except Exception as e:   # noqa
            res = {"t": "exc", "x": type(e).__name__}
        return {"cmds": [CL.canon_cmd(c) for c in net.sent_cmds], "res": res, "conn": CL.conn_info(net.log[mark:])}
    for ct in ("unset", None, 2, 6):
        for t in ("unset", None, 4, 6):
            for extra in ({}, {"no_delay": True}):
                ref = first_exchange("client", ct, t, extra)
                for stack in ("pooled", "hash", "hashpooled", "retrying"):
                    evs.append({"e": "cmp", "op": "timeouts", "attempts": 1, "stack": stack, "ref": ref,
                                "got": first_exchange(stack, ct, t, extra),
                                "cfg": {"connect_timeout": str(ct), "timeout": str(t), "extra": sorted(extra)}})
    # the serializer given in both the current and the legacy way: the same one wins on every stack
    from pymemcache import serde as S_

    class EmptyRegistry(dict):
        """a serde object that is also an (empty, hence falsy) mapping of per-type handlers"""

        def serialize(self, key, value):
            return repr(value).encode(), 55

        def deserialize(self, key, value, flags):
            return ("from-the-registry", value)

    def legacy_ser(key, value):
        return (value if isinstance(value, bytes) else repr(value).encode()), 77

    def legacy_deser(key, value, flags):
        return value
    for extra in (dict(serde=S_.pickle_serde, serializer=legacy_ser, deserializer=legacy_deser),
                  dict(serializer=legacy_ser, deserializer=legacy_deser), dict(serde=S_.pickle_serde, deserializer=legacy_deser),
                  dict(serde=EmptyRegistry()), dict(serde=EmptyRegistry(), serializer=legacy_ser, deserializer=legacy_deser)):
        def both(kind, extra=extra):
            try:
                net, srv, cl = make(kind, False, b"", dict(extra))
            except Exception as e:   # noqa
                return {"cmds": [], "res": {"t": "exc", "x": type(e).__name__}, "conn": {"io": [], "est": []}}
            net.begin_call(1)
            try:
                cl.set("k", ("tu", 1), noreply=False)
                r = cl.get("k")
                res = {"t": "val", "v": list(repr(r).encode())[:60]}
            except Exception as e:   # noqa
                res = {"t": "exc", "x": type(e).__name__}
            return {"cmds": [CL.canon_cmd(c) for c in net.sent_cmds], "res": res, "conn": {"io": [], "est": []}}
        ref = both("client")
        for stack in ("pooled", "hash", "hashpooled", "retrying"):
            evs.append({"e": "cmp", "op": "serde-precedence", "attempts": 1, "stack": stack, "ref": ref, "got": both(stack),
                        "cfg": {"options": sorted(extra)}})
    B = 400
    traces = [{"h": {"maxrej": B + 1}, "ev": evs[i:i + B]} for i in range(0, len(evs), B)]
    acc, rej, st, _ = tlc.validate_traces("WrapTrace", traces, chunk=60)
    rep.set("traces_validated_against_impl", len(evs))
    rep.set("trace_states", st)
    rep.set("histories_compared", nh)
    rep.set("server_failures_injected_before_retried_calls", CL.RECOVER_STATS["failures_injected"])
    if CL.RECOVER_STATS["failures_injected"] < 100:
        raise common.MachineryError("the recovering HashClient stacks were not exercised")
    for ti, lst in sorted(rej.items()):
        for pos, clauses in lst:
            ev = evs[ti * B + pos - 1]
            cl = ",".join(sorted(x.strip().strip('"') for x in clauses.strip("{}").split(",")))
            rep.violation(f"C16/{ev['stack']}/{ev['op']}/{cl}/ref={ev['ref']['res'].get('t')},got={ev['got']['res'].get('t')}",
                          f"{ev['stack']} vs Client, config {ev['cfg']}, call {ev['op']}: ref {str(ev['ref'])[:300]} got {str(ev['got'])[:300]}: {cl}",
                          ev)
    # the wrappers against the abstract cache as well (results right in every server state)
    plain = [{"h": t["h"], "ev": [{k: v for k, v in e.items() if k not in ("cmds", "conn")} for e in t["ev"]
                                   if e.get("op") not in CL.EXTRA_OPS], "kind": t["kind"], "variant": t["variant"]}
             for t in wrapper_traces if not t.get("pickled")]
    c05.report(rep, plain, PROP)
    rep.set("evaluations", len(evs))
    rep.set("distinct_nontrivial", len({(e["stack"], e["op"], str(e["cfg"]), str(e["ref"]["cmds"])) for e in evs if e["ref"]["cmds"]}))
    rep.set("rule", "one comparison per (history, call, wrapper stack, configuration); non-trivial = the plain Client sent at least one command; "
                    "distinct by (stack, op, configuration, command stream)")
    rep.sample({k: evs[10][k] for k in ("op", "stack", "cfg", "ref")})
    rep.assumptions += ["arguments are passed by keyword where the signatures differ (HashClient.gat/gats take expire by keyword only)",
                        "RetryingClient with attempts=2 may repeat a failing call's commands"]


def replay_with(CL, kind, hist, variant, dn, prefix, skw, attempts):
    from pymemcache.client.retrying import RetryingClient
    orig = CL.make_stack

    def mk(k, default_noreply=True, key_prefix=b"", **kw):
        net, srv, cl = orig("client", default_noreply=default_noreply, key_prefix=key_prefix, **kw)
        return net, srv, RetryingClient(cl, attempts=attempts)
    CL.make_stack = mk
    try:
        return CL.replay_history("retrying", hist, variant, dn=dn, prefix=prefix, **skw)
    finally:
        CL.make_stack = orig
