"""Shared by C05 / C16 / C04: replay abstract-cache histories (exported by TLC from spec/Cache.tla)
into a real client stack talking to the reference server through the fake socket module, and
record (call, result) traces in the vocabulary of spec/CacheRule.tla."""
from lib import common, fakesock, refserver, tlc, vclock

START = 3_000_000


class Sentinel:
    def __init__(self, n):
        self.n = n

    def __repr__(self):
        return self.n


DFLT, CASDFLT = Sentinel("DFLT"), Sentinel("CASDFLT")

NOREPLY_DEFAULT_FALSE = {"cas", "incr", "decr"}   # documented per-operation defaults


def bval(v):
    return bytes(v)


def enc_result(r, keymap=None):
    """Python result -> tagged record of CacheRule.tla"""
    if r is DFLT:
        return {"t": "dflt"}
    if r is CASDFLT:
        return {"t": "casdflt"}
    if r is True or r is False:
        return {"t": "bool", "b": r}
    if r is None:
        return {"t": "none"}
    if isinstance(r, int):
        return {"t": "int", "n": r}
    if isinstance(r, bytes):
        return {"t": "val", "v": list(r)}
    if isinstance(r, tuple) and len(r) == 2:
        a, b = r
        eb = enc_result(b)
        if isinstance(b, bytes) and b.isdigit():
            eb = {"t": "cas", "n": int(b)}
        return {"t": "pair", "a": enc_result(a), "b": eb}
    if isinstance(r, dict):
        return {"t": "map", "m": [[(keymap or {}).get(k, k if isinstance(k, str) else repr(k)), enc_result(v)]
                                  for k, v in r.items()]}
    if isinstance(r, list):
        return {"t": "keys", "ks": [(keymap or {}).get(k, k) for k in r]}
    return {"t": "other", "r": repr(r)}


def make_stack(kind, default_noreply=True, key_prefix=b"", **kw):
    """kind: client | pooled | hash | hashpooled | retrying"""
    from pymemcache.client.base import Client, PooledClient
    from pymemcache.client.hash import HashClient
    from pymemcache.client.retrying import RetryingClient
    net = fakesock.FakeNet()
    srv = net.add_server(("mc1", 11211))
    opts = dict(socket_module=net, default_noreply=default_noreply, key_prefix=key_prefix)
    if not kw.pop("leave_timeouts_unset", False):
        opts.update({"connect_timeout": 3, "timeout": 7})
    opts.update(kw)
    if kind == "client":
        cl = Client(("mc1", 11211), **opts)
    elif kind == "pooled":
        cl = PooledClient(("mc1", 11211), **opts)
    elif kind in ("hash", "hashpooled"):
        cl = HashClient([("mc1", 11211)], use_pooling=(kind == "hashpooled"), **opts)
    elif kind == "hash3":
        # three healthy servers behind one HashClient are one cache: every key lives on the server placement gives it
        # (one of the three is reached through a UNIX socket: a cluster may mix both kinds of address)
        for addr in ("/var/run/mc2.sock", ("mc3", 11211)):
            net.add_server(addr)._next_cas = srv._next_cas      # one numbering of cas ids, as in one cache
        cl = HashClient([("mc1", 11211), "/var/run/mc2.sock", ("mc3", 11211)], **opts)
    elif kind == "retrying":
        cl = RetryingClient(Client(("mc1", 11211), **opts), attempts=1)
    else:
        raise ValueError(kind)
    return net, srv, cl


def do_op(cl, ev, default_noreply, variant, kind="client"):
    """Issue the call described by abstract event ev; returns the encoded result."""
    op, k, nr = ev["op"], ev["k"], ev["nr"]
    v = bval(ev["v"])
    exp = ev["exp"]
    eff_default = False if op in NOREPLY_DEFAULT_FALSE else default_noreply
    kw = {}
    if not (nr == eff_default and variant % 2 == 0):
        kw["noreply"] = nr          # otherwise rely on the documented default ...
    elif variant % 4 == 0 and (op not in NOREPLY_DEFAULT_FALSE or op in ("cas", "incr", "decr")):
        kw["noreply"] = None        # ... or say so explicitly (None = "use the default"; for cas / incr / decr: falsy = wait for the reply)
    # str and bytes keys; with several servers one spelling per key (the two spellings of a key are placed independently:
    # known finding C12/str-and-bytes-spellings..., reported by C12's own probe)
    as_str = bool(variant % 3) or kind == "hash3"
    key = k if as_str else k.encode()
    keymap = {key: k}
    try:
        items_ok = kind in ("client", "pooled", "retrying")       # the stacks that offer c[k], c[k] = v, del c[k]
        if op == "set" and items_ok and nr and exp == 0 and variant % 5 == 2:
            cl[key] = v                      # documented as set(key, value, noreply=True)
            r = True
        elif op in ("set", "add", "replace", "append", "prepend"):
            r = getattr(cl, op)(key, v, expire=exp, **kw)
        elif op == "cas":
            tok = str(ev["cas"]).encode() if variant % 2 else ev["cas"]
            r = cl.cas(key, v, tok, expire=exp, **kw)
        elif op == "get" and items_ok and variant % 5 == 0:
            try:
                r = cl[key]                  # the value, or KeyError for a miss -- whatever the value is (empty, b"0", ...)
            except KeyError:
                r = DFLT
        elif op == "get":
            r = cl.get(key, DFLT) if variant % 2 else cl.get(key, default=DFLT)
        elif op == "gets":
            r = cl.gets(key, default=DFLT, cas_default=CASDFLT)
        elif op == "gat":
            r = cl.gat(key, expire=exp, default=DFLT)
        elif op == "gats":
            r = cl.gats(key, expire=exp, default=DFLT, cas_default=CASDFLT)
        elif op in ("get_many", "gets_many"):
            keys = [x if as_str else x.encode() for x in ev["keys"]]
            keymap = dict(zip(keys, ev["keys"]))
            coll = [list, tuple, iter][variant % 3](keys) if kind in ("client", "pooled", "retrying") else keys
            r = getattr(cl, op)(coll)
        elif op == "delete" and items_ok and nr and variant % 5 == 1:
            del cl[key]                      # documented as delete(key, noreply=True)
            r = True
        elif op == "delete":
            r = cl.delete(key, **kw)
        elif op == "delete_many":
            keys = [x if as_str else x.encode() for x in ev["keys"]]
            r = cl.delete_many(keys, **kw)
        elif op in ("incr", "decr"):
            r = getattr(cl, op)(key, ev["delta"], **kw)
        elif op == "touch":
            r = cl.touch(key, expire=exp, **kw)
        elif op == "flush_all":
            r = cl.flush_all(**kw)
            if kind in ("hash", "hashpooled", "hash3"):
                r = True if r is None else r       # HashClient.flush_all is documented to return None
        elif op == "set_many":
            items = {(x if as_str else x.encode()): bval(val) for x, val in ev["items"]}
            keymap = dict(zip(items.keys(), [x for x, _ in ev["items"]]))
            r = cl.set_many(items, expire=exp, **kw)
        else:
            raise ValueError(op)
    except Exception as e:
        return {"t": "exc", "x": type(e).__name__}
    return enc_result(r, keymap)


def canon_cmd(c):
    import hashlib
    out = {}
    for k, v in sorted(c.items()):
        if k in ("raw",):
            continue
        if isinstance(v, bytes):
            out[k] = ("%d:" % len(v) + hashlib.sha256(v).hexdigest()[:12]) if k == "data" else v.decode("latin1")
        elif isinstance(v, list):
            out[k] = [x.decode("latin1") if isinstance(x, bytes) else x for x in v]
        elif isinstance(v, bool):
            out[k] = v
        elif v is None:
            out[k] = "none"
        else:
            out[k] = str(v)
    return out


def model_cmds(sent, prefix):
    """the commands a call sent, in the record format of spec/ClientOps.tla (Cmd): the configured key prefix taken off"""
    def key(b):
        b = b[len(prefix):] if prefix and b.startswith(prefix) else b
        return b.decode("latin1")
    out = []
    for c in sent:
        verb = c["verb"].decode("latin1") if isinstance(c.get("verb"), bytes) else str(c.get("verb"))
        many = "keys" in c
        out.append({"verb": verb, "k": "" if many or "key" not in c else key(c["key"]),
                    "v": list(c.get("data", b"")), "exp": int(c.get("exptime", 0) or 0), "nr": bool(c.get("noreply", False)),
                    "cas": int(c.get("cas", 0) or 0), "delta": int(c.get("delta", 0) or 0),
                    "keys": [key(x) for x in c["keys"]] if many else []})
    return out


def conn_info(log):
    """socket options / timeouts of the connection activity of one call"""
    out = []
    for e in log:
        if e["e"] == "tmo":
            out.append(["tmo", e["v"]])
        elif e["e"] == "opt":
            out.append(["opt", e["name"]])
        elif e["e"] == "wrap":
            out.append(["wrap", 0])
        elif e["e"] == "connect":
            out.append(["connect", e["tmo"] if isinstance(e["tmo"], (int, float)) else -2])
        elif e["e"] == "send":
            out.append(["send", e["tmo"] if isinstance(e["tmo"], (int, float)) else -2])
    # the wrappers may (re)connect at other moments than a plain Client (a pool destroys its client on any
    # exception, even an input error raised before connecting): compare WHAT is configured, not when --
    # the timeout in force for I/O, and the timeouts/options used when a connection is established
    io = sorted({x[1] for x in out if x[0] == "send"})
    est = sorted({(x[0], x[1]) for x in out if x[0] in ("connect", "opt", "wrap")})
    return {"io": io, "est": [list(x) for x in est]}


RECOVER_STATS = {"failures_injected": 0, "not_tried": 0}


def fail_once(net, cl, n):
    """One natural failure of a HashClient's server: the established connection is reset while a request is being sent
    (or, with no connection yet, the connect is refused).  Nothing reaches the server; the client records the failure."""
    net.begin_call(-n, {("sendall", 1): "reset", ("connect", 1): "refused"}, "all")
    try:
        cl.get("zz-probe")
    except OSError:
        return True
    return False


def replay_history(kind, hist, variant, extra=None, dn=None, prefix=None, recover=False, **stackkw):
    """Returns the trace {h, ev} of one history on a fresh stack.
    recover (HashClient stacks): before every clock advance of the history the server fails once, so that the call after
    the advance (longer than retry_timeout) is the one that retries a failed server -- HashClient's other code path."""
    dn = (variant % 2 == 0) if dn is None else dn
    prefix = [b"", b"pfx:"][(variant // 2) % 2] if prefix is None else prefix
    vclock.set_now(START)
    net, srv, cl = make_stack(kind, default_noreply=dn, key_prefix=prefix, **stackkw)
    out = []
    last_cas = {}
    for i, ev in enumerate(hist):
        if ev["e"] == "tick":
            if recover:
                # (no OSError = the client did not even try: the server failed a moment ago and retry_timeout has not elapsed)
                RECOVER_STATS["failures_injected" if fail_once(net, cl, i + 1) else "not_tried"] += 1
            vclock.advance(ev["d"])
            out.append(ev)
            continue
        ev = resolve_dynamic(ev, last_cas)
        net.begin_call(i + 1, None, fakesock_seg(variant + i))
        mark = len(net.log)
        if ev["op"] in EXTRA_OPS:
            res = do_extra(cl, ev, kind)
        else:
            res = do_op(cl, ev, dn, variant + i, kind)
        ev = dict(ev, cmds=[canon_cmd(c) for c in net.sent_cmds], conn=conn_info(net.log[mark:]))
        if kind not in ("hash3", "retrying") and ev["op"] not in EXTRA_OPS:      # (a retrying wrapper repeats commands by design)
            try:
                ev["wcmds"] = model_cmds(net.sent_cmds, prefix)
            except Exception:   # noqa -- something unparseable went out: the results (and C02) judge that
                pass
        if ev["op"] in ("gets", "gats") and res.get("t") == "pair" and res["b"].get("t") == "cas":
            last_cas[ev["k"]] = res["b"]["n"]
        if ev["op"] == "gets_many" and res.get("t") == "map":
            for kk, rr in res["m"]:
                if rr.get("t") == "pair" and rr["b"].get("t") == "cas":
                    last_cas[kk] = rr["b"]["n"]
        out.append(dict(ev, res=res))
    try:
        cl.close()
    except Exception:
        pass
    return {"h": {"now": START, "maxrej": 40}, "ev": out, "variant": variant, "kind": kind, "net": net}


EXTRA_OPS = {"set-strval", "set-intval", "set-ukey", "get-ukey", "set-flags", "touch-kw", "get-many-empty", "gat-kw",
             "set-empty", "getitem-empty", "setitem", "getitem", "delitem", "getitem-miss", "set-none", "get-none",
             "set-2char", "get-2char", "get-2byte", "gets-kwdefaults-miss", "gats-kwdefaults-miss", "incr-kwkey",
             "append-exp-flags", "prepend-exp-flags", "set-tupleval", "get-tuple-default", "set-prefix-alias", "get-prefix-alias",
             "get-many-prefix-alias", "delete-many-absent-first",
             "set-flags0", "add-flags0", "replace-flags0", "setmany-flags0", "cas-flags0", "get-flags0"}


def do_extra(cl, ev, kind):
    """calls outside the abstract cache's alphabet that exercise configuration options (C16)"""
    op = ev["op"]
    try:
        if op == "set-strval":
            r = cl.set("sv", "h\xe9llo w\xf6rld", noreply=False)
        elif op == "set-intval":
            r = cl.set("iv", 12345, noreply=False)
        elif op == "set-ukey":
            r = cl.set("k\xe9\u20ac", b"u", noreply=False)
        elif op == "get-ukey":
            r = cl.get("k\xe9\u20ac", DFLT)
        elif op == "set-flags":
            r = cl.set("fl", b"x", expire=7, noreply=False, flags=77)
        elif op == "touch-kw":
            r = cl.touch("a", expire=3, noreply=False)
        elif op == "gat-kw":
            r = cl.gat("a", expire=3, default=DFLT)
        elif op == "get-many-empty":
            r = cl.get_many([])
        elif op == "set-empty":
            r = cl.set("ev", b"", noreply=False)
        elif op == "getitem-empty":
            r = cl["ev"]
        elif op == "setitem":
            cl["it"] = b"item"
            r = None
        elif op == "getitem":
            r = cl["it"]
        elif op == "delitem":
            del cl["it"]
            r = None
        elif op == "getitem-miss":
            r = cl["never-set"]
        elif op == "set-none":
            r = cl.set("nn", None, noreply=False)
        elif op == "get-none":
            r = cl.get("nn", default=DFLT)
        elif op == "set-2char":              # keys of exactly two characters / bytes are keys, not (server_key, key) pairs
            r = cl.set("ab", b"two", noreply=False)
        elif op == "get-2char":
            r = cl.get("ab", DFLT)
        elif op == "get-2byte":
            r = cl.get(b"ab", DFLT)
        elif op == "gets-kwdefaults-miss":
            r = cl.gets("never-set", default=DFLT, cas_default=CASDFLT)
        elif op == "gats-kwdefaults-miss":
            r = cl.gats("never-set", expire=9, default=DFLT, cas_default=CASDFLT)
        elif op == "append-exp-flags":
            r = cl.append("sv", b"+tail", expire=30, flags=5, noreply=False)
        elif op == "prepend-exp-flags":
            r = cl.prepend("sv", b"head+", expire=45, flags=6, noreply=False)
        elif op == "set-tupleval":           # a tuple passed positionally stays a tuple on its way to the serializer
            r = cl.set("tv", ("tu", 1), 0, False)
        elif op == "get-tuple-default":
            r = cl.get("never-set", ())
            r = b"the-callers-tuple" if isinstance(r, tuple) and r == () else b"something-else"
        elif op == "set-prefix-alias":       # a key whose own text begins with the configured prefix is still a different key
            r = cl.set("pfx:a", b"aliased", noreply=False)
        elif op == "get-prefix-alias":
            r = cl.get("pfx:a", DFLT)
        elif op == "get-many-prefix-alias":
            r = cl.get_many(["a", "pfx:a"])
        elif op == "delete-many-absent-first":
            cl.set("dm2", b"x", noreply=False)
            r = cl.delete_many(["never-set", "dm2"], noreply=False)
            r = [r, cl.get("dm2", DFLT)]
            r = r[0] is True and r[1] == DFLT
        # an explicit flags=0 is an argument like any other (0 is not "no flags given": with a serializer that marks text or
        # integers the item is then stored unmarked and read back as bytes) -- every storage command, then the reads
        elif op == "set-flags0":
            r = cl.set("f0", "text", noreply=False, flags=0)
        elif op == "add-flags0":
            r = cl.add("f0a", "text", noreply=False, flags=0)
        elif op == "replace-flags0":
            r = cl.replace("f0", "text2", noreply=False, flags=0)
        elif op == "setmany-flags0":
            r = cl.set_many({"f0m": "text", "f0n": "7"}, noreply=False, flags=0)
        elif op == "cas-flags0":
            r = cl.cas("f0", "text3", b"1", noreply=False, flags=0)
        elif op == "get-flags0":
            r = cl.get_many(["f0", "f0a", "f0m", "f0n"])
        elif op == "incr-kwkey":             # everything by keyword, on a value that is not a number: the same error everywhere
            r = cl.incr(key="sv", value=1, noreply=False)        # "sv" holds text (set-strval)
        else:
            raise ValueError(op)
    except Exception as e:   # noqa
        return {"t": "exc", "x": type(e).__name__}
    return enc_result(r)


def fakesock_seg(n):
    return ["all", "bytes", (3, 1, 4, 1, 5, 9, 2, 6), "aftercr", "beforelf"][n % 5]


def export_histories(rep, depth, simulate=None, sim_depth=None, seed=0, wire_depth=1):
    wire = "" if simulate else "INVARIANT WireRefinesAbstract\n"    # the wire-level refinement is checked in the exhaustive run
    cfg = f"""SPECIFICATION Spec
CONSTANTS
  Depth = {sim_depth if simulate else depth}
  Start = {START}
  WireDepth = {wire_depth}
INVARIANT CasTokenAccepted
INVARIANT CasUnique
INVARIANT ManyAgrees
{wire}CHECK_DEADLOCK FALSE
"""
    if simulate:
        r = tlc.run("Cache", cfg_text=cfg, workers=4, simulate=f"num={max(1, simulate // 4)}", depth=sim_depth + 3,
                    seed=seed, timeout=1200)
    else:
        r = tlc.run("Cache", cfg_text=cfg, workers=16, timeout=3000)
    if r.error:
        raise common.MachineryError(r.error)
    if not r.ok:
        rep.violation("C05/model/" + ",".join(r.invariants_violated), "abstract cache violates its own invariants",
                      tlc.first_error_trace(r))
    hs = [x["h"] for x in r.json_lines("EXP")]
    if not simulate:
        rep.add("states", r.distinct)
        rep.add("transitions", r.generated)
        rep.set("checker_cmd", r.cmd)
    return hs


def refinement_everywhere(rep):
    """spec/Cache.tla SpecAll: client tables + faithful server = abstract cache in EVERY well-formed state of a bounded shape
    (not only the states reachable within the history depth): agreement on all (state, operation) pairs is agreement on
    histories of any length."""
    cfg = f"""SPECIFICATION SpecAll
CONSTANTS
  Depth = 0
  Start = {START}
  WireDepth = 0
INVARIANT WireRefinesAbstractEverywhere
INVARIANT CasTokenAccepted
INVARIANT ManyAgrees
CHECK_DEADLOCK FALSE
"""
    r = tlc.run("Cache", cfg_text=cfg, cfg="CacheAll_gen", workers=16, timeout=3000)
    if r.error:
        raise common.MachineryError(r.error)
    if not r.ok:
        rep.violation("C05/model/everywhere/" + ",".join(r.invariants_violated),
                      "wire-level model and abstract cache disagree in some well-formed state", tlc.first_error_trace(r))
    if r.distinct < 1000:
        raise common.MachineryError("vacuous all-states refinement: %d states" % r.distinct)
    rep.set("refinement_checked_in_all_wellformed_states", r.distinct)


def random_histories(n, depth, seed):
    """Long random histories over the same alphabet as spec/Cache.tla, with cas tokens taken from what
    earlier gets/gats calls of the history returned (the natural data flow through the caller).
    They carry no expectation: TLC decides every result through spec/CacheTrace.tla."""
    import random
    rnd = random.Random(seed)
    V = [[49], [120], [50, 55], [57, 57]]
    out = []
    for _ in range(n):
        h = []
        for _ in range(depth):
            k = rnd.choice("ab")
            nr = rnd.random() < 0.35
            x = rnd.choice([0, 0, 2, -1, "abs"])
            op = rnd.choice(["set", "set", "add", "replace", "append", "prepend", "cas", "cas", "get", "gets", "gets",
                             "gat", "gats", "get_many", "gets_many", "delete", "delete_many", "incr", "decr",
                             "touch", "flush_all", "set_many", "tick", "tick"])
            ev = {"e": "op", "op": op, "k": k, "v": rnd.choice(V), "exp": x, "nr": nr, "cas": 0, "delta": rnd.choice([1, 3, 30]),
                  "keys": [], "items": []}
            if op == "tick":
                h.append({"e": "tick", "d": rnd.choice([1, 1, 2, 3])})
                continue
            if op == "cas":
                ev["cas"] = ("last", k) if rnd.random() < 0.75 else rnd.randrange(0, 60)
            if op in ("get", "gets", "gat", "gats", "get_many", "gets_many"):
                ev["nr"] = False
            if op in ("get_many", "gets_many", "delete_many"):
                ev["keys"] = rnd.choice([["a", "b"], ["b", "a"], ["a"], ["b"], ["a", "a", "b"], ["b", "a", "b"]])
                ev["k"] = ""
            if op == "set_many":
                ev["items"] = [["a", rnd.choice(V)], ["b", rnd.choice(V)]]
                ev["k"] = ""
            if op in ("append", "prepend", "delete", "incr", "decr", "flush_all", "get", "gets", "get_many", "gets_many", "delete_many", "cas"):
                ev["exp"] = 0 if op != "cas" else (x if x != "abs" else 0)
            h.append(ev)
        out.append(h)
    return out


def resolve_dynamic(ev, last_cas):
    """fill in ('last', key) cas tokens and 'abs' expiry from the running execution"""
    ev = dict(ev)
    if isinstance(ev.get("cas"), tuple):
        ev["cas"] = last_cas.get(ev["cas"][1], 0)
    if ev.get("exp") == "abs":
        ev["exp"] = int(vclock.now) + 2
    return ev


def probe_histories():
    """Curated multi-step histories for semantics that need a specific sequence (always run, never sampled):
    touch-like operations changing an expiry followed by the clock passing the old one; counters reaching 0;
    empty values; cas on a vanished key; noreply stores whose effect shows later."""
    V1, VX, V0, VE = [49], [120], [48], []
    def ev(op, k="a", v=(), exp=0, nr=False, cas=0, delta=0, keys=(), items=()):
        return {"e": "op", "op": op, "k": k, "v": list(v), "exp": exp, "nr": nr, "cas": cas, "delta": delta,
                "keys": list(keys), "items": [list(x) for x in items]}
    T = lambda d: {"e": "tick", "d": d}
    out = []
    for first in (0, 2):
        for op in ("touch", "gat", "gats"):
            for newexp in (0, 5, -1, 1):
                out.append([ev("set", v=V1, exp=first), ev(op, exp=newexp), T(3), ev("get"), ev("gets"), T(3), ev("get"),
                            ev("incr", delta=1), ev("get_many", k="", keys=["a", "b"])])
    for nr in (False, True):
        out.append([ev("set", v=V1, nr=nr), ev("decr", delta=1), ev("get"), ev("decr", delta=1), ev("incr", delta=0), ev("get")])
        out.append([ev("set", v=V0, nr=nr), ev("incr", delta=0), ev("decr", delta=5), ev("gets")])
        out.append([ev("set", v=VE, nr=nr), ev("get"), ev("gets"), ev("get_many", k="", keys=["a"]), ev("append", v=VE), ev("get")])
        out.append([ev("set", v=VX, nr=nr), ev("gets"), ev("delete"), ev("cas", v=V1, cas=("last", "a")), ev("get"),
                    ev("add", v=V1, nr=nr), ev("cas", v=VX, cas=("last", "a")), ev("cas", v=VX, cas=1, nr=nr), ev("get")])
        out.append([ev("set", v=V1, exp=2, nr=nr), T(1), ev("gets"), T(2), ev("cas", v=VX, cas=("last", "a")), ev("get"), ev("touch", exp=5),
                    ev("replace", v=VX, nr=nr), ev("prepend", v=V1, nr=nr), ev("get")])
        out.append([ev("set_many", k="", items=[["a", V1], ["b", VX]], exp=2, nr=nr), ev("get_many", k="", keys=["b", "a"]), T(3),
                    ev("get_many", k="", keys=["a", "b"]), ev("delete_many", k="", keys=["a", "b"], nr=nr), ev("flush_all", k="", nr=nr)])
        # values that end in (or consist of) line terminators come back whole; multi-key calls with nothing to ask for
        for v in ([120, 10], [120, 13], [13, 10], [10], [120, 13, 10, 13, 10]):
            out.append([ev("set", v=v, nr=nr), ev("get"), ev("gets"), ev("get_many", k="", keys=["a", "b"]), ev("append", v=[10], nr=nr),
                        ev("get"), ev("gat", exp=0), ev("gats", exp=0)])
        # a key whose own text begins with the configured prefix (half of the replays run with the prefix "pfx:") is another key
        out.append([ev("set", k="a", v=V1, nr=nr), ev("set", k="pfx:a", v=VX, nr=nr), ev("get", k="a"), ev("get", k="pfx:a"),
                    ev("get_many", k="", keys=["a", "pfx:a"]), ev("incr", k="a", delta=3), ev("delete", k="a", nr=nr),
                    ev("get", k="pfx:a"), ev("gets", k="a"), ev("add", k="a", v=V1, nr=nr), ev("get_many", k="", keys=["pfx:a", "a"])])
        out.append([ev("get_many", k="", keys=[]), ev("gets_many", k="", keys=[]), ev("delete_many", k="", keys=[], nr=nr),
                    ev("set_many", k="", items=[], nr=nr), ev("set", v=V1, nr=nr), ev("get_many", k="", keys=[]), ev("get")])
    return out


def spread_histories():
    """multi-key calls over eight keys in several orders (on a HashClient with three servers the keys of one call are spread
    over the servers, interleaved): what comes back is what was found, whatever the order the keys were named in"""
    V1, VX = [49], [120]
    def ev(op, k="", v=(), exp=0, nr=False, keys=(), items=()):
        return {"e": "op", "op": op, "k": k, "v": list(v), "exp": exp, "nr": nr, "cas": 0, "delta": 0,
                "keys": list(keys), "items": [list(x) for x in items]}
    ks = ["k%d" % i for i in range(8)]
    orders = [ks, ks[::-1], ks[::2] + ks[1::2], [ks[i] for i in (3, 0, 6, 1, 7, 2, 5, 4)], [ks[i] for i in (0, 4, 1, 5, 2, 6, 3, 7)]]
    out = []
    for oi, order in enumerate(orders):
        for nr in (False, True):
            some = order[: 5 + oi % 3]
            # single sets first: the abstract cache numbers cas ids in the order of the writes, and a set_many on several
            # servers writes server by server -- no gets_many after a set_many here
            out.append([ev("set", k=k, v=V1 if i % 2 else VX, nr=nr) for i, k in enumerate(some)] +
                       [ev("get_many", keys=order), ev("gets_many", keys=order[::-1]), ev("get", k=order[0]),
                        ev("delete_many", keys=order[1::3], nr=nr), ev("get_many", keys=order), ev("gets_many", keys=order),
                        ev("set_many", items=[[k, VX] for k in order[::3]], nr=nr), ev("get_many", keys=order),
                        ev("get_many", keys=order[2:5]), ev("flush_all", nr=nr), ev("get_many", keys=order)])
    return out
