"""C11 -- key placement is a pure, order-independent, minimally disruptive function.

(i)  TLC explores the as-coded model spec/Rendezvous.tla (list-order fold with the > / == / max(str)
     branches, add/remove histories up to 6 steps over 4 nodes, EVERY score assignment in 0..2 so that
     2-, 3- and 4-way ties occur) against the contract monitor spec/RendezvousRule.tla and exports every
     (score table, history); each is replayed into the real RendezvousHash through hash_function=.
(ii) Real murmur3 scores: node sets up to 8 names, every permutation of up to 5 (thorough 6) nodes,
     random add/remove histories, a key corpus incl. keys up to 250 bytes; every get_node is logged with
     the scores of all nodes in rotation.  TLC validates: winner = highest score, ties to the greatest
     name; same set => same placement (other orders, other processes with other PYTHONHASHSEEDs,
     equivalent server spellings through HashClient); removal / addition move only the affected keys;
     every node owns >= corpus/(4n) keys."""
import itertools
import json
import os
import random
import subprocess
import sys

from lib import common, tlc, vclock

PROP = "C11"
RANK_NAMES = ["n1", "n10", "n2", "n9"]          # string order = rank order, numeric order differs
NAME_SETS = [RANK_NAMES, sorted(["10.0.0.1:11211", "10.0.0.10:11211", "10.0.0.2:11211", "10.0.0.9:11211"]),
             sorted(["Alpha", "None", "Zulu", "alpha"]), sorted(["/var/run/a.sock", "[::1]:11211", "mc.example.com:11211", "0"])]

CHILD = r"""
import sys, json
sys.path.insert(0, sys.argv[1])
from pymemcache.client.rendezvous import RendezvousHash
jobs = json.load(sys.stdin)
out = []
for nodes, keys in jobs:
    h = RendezvousHash()
    for n in nodes:
        h.add_node(n)
    out.append([h.get_node(k) for k in keys])
print(json.dumps(out))
"""


def server_specs(rep, tier):
    """spec/ServerSpec.tla: normalize_server_spec as coded agrees with the meaning of every well-formed address spelling (TLC, all
    strings up to MaxLen over the address alphabet); every string is then given to the real function and TLC judges the results
    with the same rule (spec/ServerSpecRule.tla); a result that differs from the as-coded prediction on an ill-formed string is
    MODEL-DRIFT."""
    from pymemcache.client.base import normalize_server_spec
    maxlen = 4 if tier == "quick" else 6
    r = tlc.run("ServerSpec", cfg_text=f"SPECIFICATION Spec\nCONSTANTS\n  MaxLen = {maxlen}\nINVARIANT Agree\nINVARIANT Total\nCHECK_DEADLOCK FALSE\n",
                workers=16, timeout=1800)
    if r.error:
        raise common.MachineryError(r.error)
    if not r.ok:
        rep.violation("C11/model/ServerSpec/" + ",".join(r.invariants_violated), "normalize_server_spec as coded disagrees with the meaning "
                      "of a well-formed address", tlc.first_error_trace(r))
    rows = r.json_lines("EXP")
    if len(rows) < 1000:
        raise common.MachineryError("vacuous export from ServerSpec: %d rows" % len(rows))
    rep.add("states", r.distinct)
    conc = {"h": "h", "d": "7", ":": ":", "[": "[", "]": "]", "/": "/"}
    back = {v: k for k, v in conc.items()}

    def abstract(x):
        return [back.get(ch, "?") for ch in x]
    evs, preds = [], []
    for row in rows:
        text = ("unix:" if row["unixp"] else "") + "".join(conc[c] for c in row["s"])
        try:
            out = normalize_server_spec(text)
            if isinstance(out, tuple) and len(out) == 2 and isinstance(out[0], str):
                port = ["D"] if out[1] == 11211 and not text.endswith(":11211") else abstract(str(out[1]))
                res = ["tcp", abstract(out[0]), port]
            elif isinstance(out, str):
                res = ["unix", abstract(out)]
            else:
                res = ["other", [repr(out)[:30]]]
        except ValueError:
            res = ["ValueError"]
        except Exception as e:   # noqa
            res = ["other", [type(e).__name__]]
        evs.append({"e": "norm", "unixp": row["unixp"], "s": row["s"], "res": res})
        preds.append(row["norm"])
    B = 500
    tr = [{"h": {"maxrej": B + 1}, "ev": evs[i:i + B]} for i in range(0, len(evs), B)]
    acc, rej, st, _ = tlc.validate_traces("ServerSpecTrace", tr, chunk=200)
    rep.add("traces_validated_against_impl", len(evs))
    rep.add("trace_states", st)
    rep.set("server_address_spellings_checked", len(evs))
    for ti, lst in sorted(rej.items()):
        for pos, clauses in lst[:3]:
            ev = evs[ti * B + pos - 1]
            cl = ",".join(sorted(x.strip().strip('"') for x in clauses.strip("{}").split(",")))
            rep.violation(f"C11/server-spec/{cl}/{'unix:' if ev['unixp'] else ''}{''.join(ev['s'])}",
                          f"normalize_server_spec({('unix:' if ev['unixp'] else '') + ''.join(conc[c] for c in ev['s'])!r}) -> {ev['res']}: {cl}", ev)
    rejected = {ti * B + pos - 1 for ti, lst in rej.items() for pos, _ in lst}
    for i, (ev, pr) in enumerate(zip(evs, preds)):
        if i not in rejected and ev["res"] != pr:
            rep.model_drift("normalize_server_spec differs from the as-coded model on a string the contract does not constrain",
                            {"s": ev["s"], "unixp": ev["unixp"], "res": ev["res"], "model": pr})


def word(x):
    return [x >> 16, x & 0xFFFF]


def main(tier, rep):
    vclock.install()
    common.import_repo()
    from pymemcache.client.rendezvous import RendezvousHash
    from pymemcache.client.murmur3 import murmur3_32
    from pymemcache.client.hash import HashClient
    rnd = random.Random(common.seed())
    cfg = """SPECIFICATION Spec
CONSTANTS
  N = 4
  MaxScore = 2
  MaxOps = %d
  Export = TRUE
VIEW view
INVARIANT MonitorOK
INVARIANT FoldIsPlace
CHECK_DEADLOCK FALSE
""" % (5 if tier == "quick" else 6)
    # (Apalache works on the symbolic lemmas in the background while TLC explores the model and the replays run)
    import threading
    from lib import apalache
    napa = 4 if tier == "quick" else 5
    apa = {}

    def run_apalache():
        try:
            apa["r"] = apalache.check("PlacementApa", "Inv", defs={"N": napa}, timeout=300 if tier == "quick" else 1500)
        except BaseException as e:   # noqa
            apa["e"] = e
    apa_thread = threading.Thread(target=run_apalache)
    apa_thread.start()
    r = tlc.run("Rendezvous", cfg_text=cfg, workers=16, timeout=1800)
    if r.error:
        raise common.MachineryError(r.error)
    if not r.ok:
        rep.violation("C11/model/" + ",".join(r.invariants_violated), "as-coded fold model violates the placement contract",
                      tlc.first_error_trace(r))
    rep.set("states", r.distinct)
    rep.set("transitions", r.generated)
    rep.set("checker_cmd", r.cmd)
    beh = r.json_lines("EXP")
    rep.set("model_behaviours_exported", len(beh))
    if not any(len(set(b["score"])) == 1 for b in beh):
        raise common.MachineryError("vacuous export: no all-tie score table")
    # the same lemmas for ARBITRARY scores (TLC enumerates score tables 0..2 only): Apalache, symbolically, over all natural-number
    # score tables, all rotations and all node orders of N nodes -- incl. the as-coded fold of get_node
    traces = []
    # ---- (i) spec -> code with forced ties
    stride = 6 if tier == "quick" else 1
    for bi, b in enumerate(beh):
        if (bi + common.seed()) % stride:
            continue
        RN = NAME_SETS[(bi // 2) % len(NAME_SETS)]       # rank = position in string order; names of several shapes
        score = {RN[i]: b["score"][i] for i in range(4)}

        def hf(x, seed, score=score):
            return score[x.rsplit("-", 1)[0]]
        # alternate between the constructor's `nodes=` list and add_node
        hist = list(b["hist"])
        ev = []
        if bi % 2:
            # the first node comes in through the constructor's `nodes=` list instead of add_node
            lead = 1 if hist and hist[0][0] == "add" else 0
            h = RendezvousHash([RN[hist[0][1] - 1]] if lead else None, hash_function=hf)
            if lead:
                hist[0] = ["ctor", hist[0][1]]
        else:
            h = RendezvousHash(hash_function=hf)
        for op, n in hist:
            name = RN[n - 1]
            if op != "ctor":
                (h.add_node if op == "add" else h.remove_node)(name)
            order = [RN.index(x) + 1 for x in h.nodes]
            w = h.get_node("k")
            ev.append({"e": "rot", "nodes": order})
            ev.append({"e": "place", "k": 1, "sc": [[rk, 0, score[RN[rk - 1]]] for rk in order],
                       "w": RN.index(w) + 1 if w in RN else 0})
        traces.append({"h": {}, "ev": ev, "what": ("forced-ties", b["score"], b["hist"])})
    nforced = len(traces)

    # ---- (ii) real murmur3 scores
    pool = ["10.0.0.%d:11211" % i for i in (1, 2, 10, 21, 3)] + ["mc-a.example.com:11211", "/var/run/mc.sock", "[::1]:11212"]
    nkeys = 150 if tier == "quick" else 1500
    keys = ["key%d" % i for i in range(nkeys // 2)] + ["%x" % rnd.getrandbits(64) for _ in range(nkeys // 4)] + \
           [("long-%d-" % i) + "x" * (240 - i % 7) for i in range(nkeys // 8)] + ["ké-%d" % i for i in range(nkeys // 8)] + \
           ["k\xa0\xb2\xb5\xbc\xbe-%d" % i for i in range(6)] + ["\ufb01-%d" % i for i in range(3)] + \
           [b"bytes-key-%d" % i for i in range(6)] + [b"\xff\x80\xfe-%d" % i for i in range(4)]
    # (the score of a node for a key is murmur3 of the text "<node>-<key>" as Python formats it -- for a bytes key that is its
    # repr; whatever one thinks of that, it is what every release has computed, and placement must not move between releases)
    kid = {k: i + 1 for i, k in enumerate(keys)}

    def observe(h, ranks, ev, keyset, seed=0):
        order = [ranks[x] for x in h.nodes]
        ev.append({"e": "rot", "nodes": order})
        for k in keyset:
            w = h.get_node(k)
            ev.append({"e": "place", "k": kid[k], "sc": [[ranks[n]] + word(murmur3_32("%s-%s" % (n, k), seed)) for n in h.nodes],
                       "w": ranks.get(w, 0)})

    jobs = []      # for the child interpreters
    # every permutation of node sets of size 1..5/6: same set => same placement
    maxperm = 5 if tier == "quick" else 6
    for size in range(1, maxperm + 1):
        names = pool[:size]
        ranks = {n: i + 1 for i, n in enumerate(sorted(names))}
        ev = []
        ks = keys if size <= 3 else keys[:: (4 if tier == "quick" else 1)]
        perms = list(itertools.permutations(names))
        if tier == "quick" and len(perms) > 30:
            perms = perms[:6] + rnd.sample(perms, 24)
        for pi, perm in enumerate(perms):
            h = RendezvousHash(list(perm)) if pi % 2 else RendezvousHash()
            if not pi % 2:
                for n in perm:
                    h.add_node(n)
            observe(h, ranks, ev, ks if pi < 3 else ks[:: 5])
        jobs.append((list(perms[-1]), [k for k in ks if isinstance(k, str)][:60], ranks, ev))
        traces.append({"h": {}, "ev": ev, "what": ("permutations", size)})
    # add/remove histories
    for hi in range(12 if tier == "quick" else 120):
        names = rnd.sample(pool, rnd.randrange(3, 9))
        ranks = {n: i + 1 for i, n in enumerate(sorted(names))}
        h = RendezvousHash(list(names[:2])) if hi % 2 else RendezvousHash()
        ev = []
        ks = rnd.sample(keys, 60 if tier == "quick" else 300)
        for n in names[:2]:
            if not hi % 2:
                h.add_node(n)
        observe(h, ranks, ev, ks)
        for step in range(6):
            present = list(h.nodes)
            absent = [n for n in names if n not in present]
            if absent and len(present) > 1 and rnd.random() < 0.3:
                # one node replaced by another with no lookup in between: the rotation keeps its size, placement follows the set
                h.remove_node(rnd.choice(present))
                h.add_node(rnd.choice(absent))
            elif rnd.random() < 0.2:
                h.add_node(rnd.choice(present))        # already there: a no-op
            elif absent and (len(present) <= 1 or rnd.random() < 0.55):
                h.add_node(rnd.choice(absent))
            else:
                h.remove_node(rnd.choice(present))
            observe(h, ranks, ev, ks)
        traces.append({"h": {}, "ev": ev, "what": ("history", hi)})
    # seeds other than the default, and copies of a hasher (copy / deepcopy: a client object that is copied keeps its
    # placement): the score is murmur3 of "<node>-<key>" with THAT seed
    import copy
    for seed in (0, 1, 12345, 2 ** 31, 2 ** 32 - 1):
        names = pool[:4]
        ranks = {n: i + 1 for i, n in enumerate(sorted(names))}
        ev = []
        h = RendezvousHash(list(names), seed=seed)
        ks = keys[:: 3]
        observe(h, ranks, ev, ks, seed)
        for dup in (copy.copy, copy.deepcopy):
            try:
                h2 = dup(h)
            except Exception:   # noqa -- a hasher that cannot be copied is not wrong
                continue
            observe(h2, ranks, ev, ks[:: 2], seed)
            h2.remove_node(names[1])
            observe(h2, ranks, ev, ks[:: 4], seed)
            h2.add_node(names[1])
        observe(h, ranks, ev, ks[:: 4], seed)
        traces.append({"h": {}, "ev": ev, "what": ("seed-and-copies", seed)})
    # spread over a corpus
    for size in (2, 3, 5, 8):
        names = pool[:size]
        h = RendezvousHash(list(names))
        big = ["spread-%d" % i for i in range(4000 if tier == "quick" else 20000)]
        cnt = {n: 0 for n in names}
        for k in big:
            cnt[h.get_node(k)] += 1
        traces.append({"h": {}, "ev": [{"e": "spread", "counts": [cnt[n] for n in names], "total": len(big)}],
                       "what": ("spread", size)})
        # keys at the 250-byte limit (the '<node>-<key>' strings then exceed 256 characters)
        longk = [("%05d" % i) + "L" * (236 + i % 10) for i in range(2000 if tier == "quick" else 8000)]
        cnt = {n: 0 for n in names}
        for k in longk:
            cnt[h.get_node(k)] += 1
        traces.append({"h": {}, "ev": [{"e": "spread", "counts": [cnt[n] for n in names], "total": len(longk)}],
                       "what": ("spread-long-keys", size)})
    # other interpreters, other hash seeds: placement must be identical
    for hs in ("1", "random"):
        env = dict(os.environ, PYTHONHASHSEED=hs)
        p = subprocess.run([sys.executable, "-B", "-c", CHILD, common.REPO], input=json.dumps([[j[0], j[1]] for j in jobs]),
                           text=True, stdout=subprocess.PIPE, stderr=subprocess.PIPE, env=env, timeout=600)
        if p.returncode != 0:
            raise common.MachineryError("child interpreter failed: " + p.stderr[-400:])
        for (nodes, ks, ranks, ev), winners in zip(jobs, json.loads(p.stdout)):
            ev.append({"e": "rot", "nodes": [ranks[n] for n in nodes]})
            for k, w in zip(ks, winners):
                ev.append({"e": "place", "k": kid[k], "sc": [[ranks[n]] + word(murmur3_32("%s-%s" % (n, k))) for n in nodes],
                           "w": ranks.get(w, 0)})
    # equivalent spellings of the server addresses through HashClient
    class Stub:
        def __init__(self, server, **kw):
            self.server = server

        def close(self):
            pass
    canon = [("10.0.0.1", 11211), ("10.0.0.2", 11212), ("::1", 11213), "/var/run/mc.sock", ("mc.example.com", 11211),
             ("Cache-A.Example.COM", 11300), ("FE80::A1", 11214), "/var/run/MC-Upper.sock"]
    spell = [
        canon,
        ["10.0.0.1:11211", "10.0.0.2:11212", "[::1]:11213", "unix:/var/run/mc.sock", "mc.example.com",
         "Cache-A.Example.COM:11300", "[FE80::A1]:11214", "unix:/var/run/MC-Upper.sock"],
        ["10.0.0.1", ("10.0.0.2", 11212), ("::1", 11213), "/var/run/mc.sock", "mc.example.com:11211",
         ("Cache-A.Example.COM", 11300), "[FE80::A1]:11214", "/var/run/MC-Upper.sock"],
    ]
    names = ["%s:%s" % s if isinstance(s, tuple) else s for s in canon]
    ranks = {n: i + 1 for i, n in enumerate(sorted(names))}
    ev = []
    rkid = {}
    for si, sp in enumerate(spell + ["add_server"]):
        HashClient.client_class = Stub
        try:
            if sp == "add_server":
                hc = HashClient([])
                for s in canon:
                    if isinstance(s, tuple):
                        hc.add_server(s[0], s[1])
                    else:
                        hc.add_server(s)
            else:
                hc = HashClient(sp if si % 2 else list(reversed(sp)))
        finally:
            from pymemcache.client.base import Client
            HashClient.client_class = Client
        ev.append({"e": "rot", "nodes": [ranks.get(n, 0) for n in hc.hasher.nodes]})
        for k in keys[:80]:
            cl, _ = hc._get_client(k)
            srv = cl.server
            nm = "%s:%s" % srv if isinstance(srv, tuple) else srv
            ev.append({"e": "place", "k": kid[k], "sc": [[ranks.get(n, 0)] + word(murmur3_32("%s-%s" % (n, k))) for n in hc.hasher.nodes],
                       "w": ranks.get(nm, 0)})
        # (routing key, key) pairs: the placement is that of the routing key alone, whatever the key part is -- routing keys of
        # length 0, 1, 2 (a 2-character str is not a pair) and ordinary ones; the key part varies and never matters
        for rk in ["", "0", "ab", keys[0], keys[1], keys[2]]:
            for kpart in ("item", b"item", keys[5], "", rk):
                try:
                    cl, bare = hc._get_client((rk, kpart))
                except Exception:   # noqa -- a routing key the client refuses is not placed at all
                    continue
                srv = cl.server
                nm = "%s:%s" % srv if isinstance(srv, tuple) else srv
                ev.append({"e": "place", "k": rkid.setdefault(rk, kid.get(rk, len(kid) + 1 + len(rkid))),
                           "sc": [[ranks.get(n, 0)] + word(murmur3_32("%s-%s" % (n, rk))) for n in hc.hasher.nodes],
                           "w": ranks.get(nm, 0) if bare == kpart else 0})
    traces.append({"h": {}, "ev": ev, "what": ("spellings",)})
    # a server the client refuses (malformed address, real Client class: it validates the address): nothing changes
    ev = []
    ranks = dict(ranks)
    hc = HashClient([c for c in canon])
    ev.append({"e": "rot", "nodes": [ranks.get(n, 0) for n in hc.hasher.nodes]})
    for bad in ("10.0.0.3:1121l", "[::1", ("10.0.0.4", "port"), "10.0.0.5:"):
        try:
            hc.add_server(bad) if not isinstance(bad, tuple) else hc.add_server(*bad)
            refused = False
        except Exception:   # noqa
            refused = True
        # refused: nothing may have changed; accepted after all (the library is lenient about that spelling): a new rotation
        ev.append({"e": "noop" if refused else "rot", "nodes": [ranks.setdefault(n, 100 + len(ranks)) for n in hc.hasher.nodes]})
    try:
        hc.remove_server(("10.9.9.9", 11211))
    except Exception:   # noqa
        ev.append({"e": "noop", "nodes": [ranks.setdefault(n, 100 + len(ranks)) for n in hc.hasher.nodes]})
    traces.append({"h": {}, "ev": ev, "what": ("refused-servers",)})

    server_specs(rep, tier)
    for t in traces:
        t["h"] = {"maxrej": 5}
    apa_thread.join()
    if "e" in apa:
        raise apa["e"]
    verdict, detail = apa["r"]
    rep.set("apalache_placement_lemmas", {"nodes": napa, "verdict": verdict})
    if verdict == "violated":
        rep.violation("C11/model/apalache/PlacementApa", "the placement lemmas (unique winner, removal / addition locality, fold = winner) "
                      "fail for some integer score table", {"counterexample": detail})
    elif verdict != "ok":
        rep.assumptions.append("Apalache run skipped (%s): the placement lemmas rest on TLC's enumeration of score tables 0..2" % detail[:120].replace("\n", " "))
    acc, rej, st, _ = tlc.validate_traces("RendezvousTrace", [{"h": t["h"], "ev": t["ev"]} for t in traces], chunk=3000)
    rep.set("traces_validated_against_impl", len(traces))
    rep.set("trace_states", st)
    for i, lst in sorted(rej.items()):
        t = traces[i]
        pos, clauses = lst[0]
        cl = ",".join(sorted(x.strip().strip('"') for x in clauses.strip("{}").split(",")))
        ev = t["ev"][pos - 1]
        detail = ""
        if t["what"][0] == "forced-ties":
            sc = t["what"][1]
            nt = max(sc.count(v) for v in set(sc))
            detail = "/%d-way-tie" % nt if nt > 1 else "/no-tie"
        rep.violation(f"C11/{t['what'][0]}/{cl}{detail}", f"{t['what']}: event {pos} {ev} rejected: {cl}",
                      {"what": t["what"], "events": t["ev"][max(0, pos - 4): pos + 1]})
    nplace = sum(1 for t in traces for e in t["ev"] if e["e"] == "place")
    rep.set("evaluations", nplace)
    rep.set("distinct_nontrivial", nforced + sum(1 for t in traces[nforced:] for e in t["ev"] if e["e"] == "place" and len(e["sc"]) > 1))
    rep.set("rule", "one placement query per (rotation, key); non-trivial = more than one node in rotation (forced-tie behaviours count once each); "
                    "all queries of the real-murmur part are distinct by (rotation order, key)")
    rep.sample({"forced_ties": traces[0]["what"], "events": traces[0]["ev"][:4]})
    rep.sample({"real": traces[nforced + 2]["what"], "events": traces[nforced + 2]["ev"][:3]})
    rep.assumptions += ["node names are compared as Python str (ranks computed with sorted()); keys are str",
                        "scores of the real runs are murmur3_32('<node>-<key>') as published; the hash itself is C14's subject"]
