"""C18 -- FallbackClient: reads fall through in order, writes touch only the primary.

TLC enumerates every (number of caches 1..4, hit/miss assignment, operation) on the as-coded
model spec/Fallback.tla, checks it against the contract monitor spec/FallbackRule.tla and exports
every behaviour; each is replayed into the real FallbackClient over scripted caches with several
argument spellings / hit-value variants; every recorded execution is validated by TLC against the
contract (spec/FallbackTrace.tla)."""
import inspect

from lib import common, tlc

READ1 = {"get", "gets"}
READN = {"get_many", "gets_many"}

# Client-like signatures of the scripted caches (what FallbackClient is documented to wrap)
SIGS = {
    "set": "key, value, expire=0, noreply=None, flags=None",
    "add": "key, value, expire=0, noreply=None, flags=None",
    "replace": "key, value, expire=0, noreply=None, flags=None",
    "append": "key, value, expire=0, noreply=None, flags=None",
    "prepend": "key, value, expire=0, noreply=None, flags=None",
    "cas": "key, value, cas, expire=0, noreply=False, flags=None",
    "get": "key, default=None",
    "gets": "key, default=None, cas_default=None",
    "get_many": "keys",
    "gets_many": "keys",
    "delete": "key, noreply=None",
    "incr": "key, value, noreply=False",
    "decr": "key, value, noreply=False",
    "touch": "key, expire=0, noreply=None",
    "flush_all": "delay=0, noreply=None",
}
# caller-side argument names of FallbackClient (positional order)
CALLER = {
    "set": ["key", "value", "expire", "noreply"], "add": ["key", "value", "expire", "noreply"],
    "replace": ["key", "value", "expire", "noreply"], "append": ["key", "value", "expire", "noreply"],
    "prepend": ["key", "value", "expire", "noreply"], "cas": ["key", "value", "cas", "expire", "noreply"],
    "get": ["key"], "gets": ["key"], "get_many": ["keys"], "gets_many": ["keys"],
    "delete": ["key", "noreply"], "incr": ["key", "value", "noreply"], "decr": ["key", "value", "noreply"],
    "touch": ["key", "expire", "noreply"], "flush_all": ["delay", "noreply"],
}
REQUIRED = {"set": 2, "add": 2, "replace": 2, "append": 2, "prepend": 2, "cas": 3, "get": 1, "gets": 1,
            "get_many": 1, "gets_many": 1, "delete": 1, "incr": 2, "decr": 2, "touch": 1, "flush_all": 0}

# realistic argument values (half of the executions use them, the other half opaque sentinels): a forwarded argument is
# "the caller's" when it is the same object, or -- for plain values -- equal and of the same type
TYPED = {"expire": [-1, 0, 1, 2592001, 2 ** 40], "noreply": [True, False, None], "delay": [0, 5], "cas": [b"123", "5", 7]}


class _Ctr:
    n = 0


def argval(name, op, variant, typed):
    _Ctr.n += 1
    if typed:
        if name in TYPED:
            return TYPED[name][(variant // 4 + _Ctr.n) % len(TYPED[name])]
        if name == "key":
            return "key%d" % (variant % 5)
        if name == "keys":
            return ["ka", "kb"]
        if name == "value" and op in ("incr", "decr"):
            return [1, 0, 2 ** 63][(variant // 4) % 3]
    return object()


def same_arg(got, want):
    return got is want or (type(want) in (int, bool, str, bytes, type(None)) and type(got) is type(want) and got == want)


HIT1 = [lambda: object(), lambda: 0, lambda: b"", lambda: False, lambda: (None, None)]
HITN = [lambda: {"k": object()}, lambda: {"k": None}, lambda: {"a": 0, "b": b""}]
MISSN = [lambda: {}, lambda: None, lambda: []]


def make_cache(idx, hit, log, variant, expect):
    class Cache:
        # some cache objects are "empty containers" to Python (len 0): they are caches all the same
        if variant % 5 == 0:
            def __len__(self):
                return 0

    c = Cache()
    box = {"log": log, "expect": expect}

    def rebind(newlog, newexpect):
        box["log"], box["expect"] = newlog, newexpect
    c.rebind = rebind

    def mk(name):
        ns = {}
        exec(f"def f({SIGS[name]}): return locals()", ns)
        binder = ns["f"]

        def method(*a, **k):
            try:
                bound = binder(*a, **k)
            except TypeError:
                bound = None
            same = bound is not None and all(same_arg(bound.get(n), v) for n, v in box["expect"].items())
            if name in READ1:
                val = HIT1[variant % len(HIT1)]() if hit else None
                h = val is not None
            elif name in READN:
                val = HITN[variant % len(HITN)]() if hit else MISSN[variant % len(MISSN)]()
                h = bool(val)
            else:
                val = True if hit else False
                h = hit
            c.answers.append(val)
            box["log"].append({"e": "consult", "i": idx, "m": name, "a": "same-args" if same else "changed-args", "hit": h})
            return val
        return method

    c.answers = []
    for name in SIGS:
        setattr(c, name, mk(name))
    c.close = lambda: None
    return c


def execute_seq(FallbackClient, n, hits, ops, variant, typed=None):
    """several operations one after the other on the SAME FallbackClient (it must stay stateless)"""
    log = []
    caches = None
    fc = None
    for oi, op in enumerate(ops):
        if oi and fc is not None and variant % 3 == 1:
            fc.close()          # closing the clients says nothing about their order: the next operation sees the configured one
        part = execute(FallbackClient, n, hits, op, variant + oi, reuse=(fc, caches), typed=variant % 4 >= 2 if typed is None else typed)
        if part.get("retry_typed"):
            return execute_seq(FallbackClient, n, hits, ops, variant, typed=True)
        fc, caches = part["fc"], part["caches"]
        log += part["ev"]
    return {"h": {"n": n}, "ev": log, "variant": variant, "op": "+".join(ops), "hits": hits}


def execute(FallbackClient, n, hits, op, variant, reuse=(None, None), typed=None):
    if typed is None:
        typed = variant % 4 >= 2
    log = []
    names = CALLER[op]
    nreq = REQUIRED[op]
    # how many optional arguments the caller passes, and whether by keyword
    nopt = (variant // 2) % (len(names) - nreq + 1)
    by_kw = variant % 2 == 1
    vals = {nm: argval(nm, op, variant, typed) for nm in names[: nreq + nopt]}
    if "key" in vals and reuse[0] is not None and getattr(reuse[0], "_verif_key", None) is not None:
        vals["key"] = reuse[0]._verif_key          # the operations of one sequence address the same key
    expect = dict(vals)
    fc, caches = reuse
    if fc is None:
        caches = [make_cache(i + 1, hits[i], log, variant + i, expect) for i in range(n)]
        try:
            if variant % 3 == 0 and n > 1:
                # the caller re-orders the caches after construction: the configured order is fc.caches as it stands
                fc = FallbackClient(list(reversed(caches)))
                fc.caches = caches if variant % 2 else list(caches)
            else:
                fc = FallbackClient(caches)
        except Exception:   # noqa -- a non-empty list of caches is refused: an outcome (nothing was applied, nothing answered)
            kind0 = "read1" if op in READ1 else "readN" if op in READN else "write"
            return {"h": {"n": n}, "ev": [{"e": "begin", "op": op, "kind": kind0}, {"e": "ret", "src": -1, "empty": False}],
                    "variant": variant, "op": op, "hits": hits, "fc": None, "caches": None}
    else:
        for c in caches:
            c.rebind(log, expect)
    if "key" in vals:
        try:
            fc._verif_key = vals["key"]
        except Exception:
            pass
    kind = "read1" if op in READ1 else "readN" if op in READN else "write"
    log.insert(0, {"e": "begin", "op": op, "kind": kind})
    pos = [vals[nm] for nm in names[:nreq]]
    opt = names[nreq: nreq + nopt]
    raised = False
    try:
        if by_kw:
            res = getattr(fc, op)(*pos, **{nm: vals[nm] for nm in opt})
        else:
            res = getattr(fc, op)(*(pos + [vals[nm] for nm in opt]))
    except Exception:
        # no cache raised, yet the call did.  With opaque sentinel arguments that may be argument validation: the
        # execution is repeated with plain values; with plain values it is an outcome the contract judges (src = -1)
        if not typed:
            if reuse[0] is None:
                return execute(FallbackClient, n, hits, op, variant, reuse, typed=True)
            return {"retry_typed": True}
        raised, res = True, None
    src = -1 if raised else 0
    if kind != "write" and not raised:
        for i, c in enumerate(caches):
            if c.answers and c.answers[-1] is res and log and any(
                    e["e"] == "consult" and e["i"] == i + 1 and e["hit"] for e in log):
                src = i + 1
    empty = not raised and (res is None or (isinstance(res, (list, dict, tuple)) and len(res) == 0))
    if isinstance(res, list):
        res.append("caller-wrote-this")          # read-through callers fill what they got: it must not come back later
    elif isinstance(res, dict):
        res["caller-wrote-this"] = 1
    log.append({"e": "ret", "src": src, "empty": empty})
    return {"h": {"n": n}, "ev": log, "variant": variant, "op": op, "hits": hits, "fc": fc, "caches": caches}


FIELDS = {"begin": ("e", "op", "kind"), "consult": ("e", "i", "m", "a", "hit"), "ret": ("e", "src", "empty")}


def main(tier, rep):
    common.import_repo()
    from pymemcache.fallback import FallbackClient

    r = tlc.run("Fallback", cfg="Fallback", workers=1, timeout=600)
    rep.set("checker_cmd", r.cmd)
    if r.error:
        raise common.MachineryError(r.error)
    if not r.ok:
        rep.violation("C18/model/" + ",".join(r.invariants_violated),
                      "as-coded model of fallback.py violates the contract", tlc.first_error_trace(r))
    rep.set("states", r.distinct)
    rep.set("transitions", r.generated)
    beh = r.json_lines("EXP")
    for b in beh:
        b["ops"] = [e["op"] for e in b["hist"] if e["e"] == "begin"]
    if not any(b["hist"][-1].get("src", 0) > 1 for b in beh) or not any("set" in b["ops"] for b in beh):
        raise common.MachineryError("vacuous export")
    rep.set("behaviours_exported", len(beh))
    nvar = 1 if tier == "quick" else 6
    if tier == "quick":
        import random
        random.Random(common.seed()).shuffle(beh)
        beh = beh[: 6000]
    traces = []
    distinct = set()
    for bi, b in enumerate(beh):
        hits = [bool(x) for x in b["hit"]]
        for v in range(nvar):
            t = execute_seq(FallbackClient, b["n"], hits, b["ops"], v + bi + (common.seed() % 7))
            t["expected"] = b["hist"]
            traces.append(t)
        if b["n"] > 1 or any(o not in READ1 | READN for o in b["ops"]):
            distinct.add((b["n"], tuple(hits), tuple(b["ops"])))
    acc, rej, st, _ = tlc.validate_traces("FallbackTrace", [{"h": t["h"], "ev": t["ev"]} for t in traces])
    rep.set("traces_validated_against_impl", len(traces))
    rep.set("trace_states", st)
    for i, pos, clauses in ((i, p, c) for i, lst in sorted(rej.items()) for p, c in lst[:1]):
        t = traces[i]
        ev = t["ev"][pos - 1] if pos <= len(t["ev"]) else {"e": "<end>"}
        kind = t["ev"][0]["kind"]
        rep.violation(f"C18/{kind}/{clauses}",
                      f"FallbackClient.{t['op']} over caches {t['hits']} rejected at event {pos} {ev}: {clauses}",
                      {"events": t["ev"], "op": t["op"], "hits": t["hits"], "variant": t["variant"]})
    for i, t in enumerate(traces):
        if i in acc and t["ev"] != t["expected"]:
            rep.model_drift("execution differs from as-coded model", {"events": t["ev"], "model": t["expected"]})
    rep.set("evaluations", len(traces))
    rep.set("distinct_nontrivial", len(distinct))
    rep.set("rule", "every (number of caches 1..4, hit/miss assignment, PAIR of operations issued on the same object) enumerated by TLC "
                    "(quick: a seeded sample of 6000) x argument-spelling / hit-value variants; non-trivial = more than one cache or a mutating "
                    "operation; distinct by (n, assignment, ops)")
    rep.set("exhaustive", tier == "thorough")
    rep.set("exhaustive", True)
    for t in traces[len(traces) // 3: len(traces) // 3 + 2]:
        rep.sample({"op": t["op"], "hits": t["hits"], "events": t["ev"]})
    rep.assumptions += ["caches are scripted objects with Client-like method signatures",
                        "a hit is any non-None answer (single-key) / non-empty answer (multi-key)"]
