"""Shared driver for the connection-level properties (C01, C06, C07, C09, C10).

Builds a client stack (Client / PooledClient / HashClient, optionally pooled) on the fake socket
module, executes *programs* (sequences of public calls, each with a fault plan and a reply
segmentation, separated by virtual-clock ticks) and records one trace per client object in the
event vocabulary of spec/ConnRule.tla.  Verdicts come from TLC running that monitor
(spec/ConnTrace.tla); nothing is decided here.
"""
import itertools

import os
import sys
from lib import common, fakesock, refserver, tlc, vclock

KINDS = ["client", "pooled", "hash", "hashpooled"]

READ_OPS = {"get", "gets", "get_many", "gets_many", "gat", "gats"}


class Cfg:
    def __init__(self, kind="client", tls=False, ctmo=3, tmo=7, idle=0, ignore_exc=False, naddr=1,
                 unix=False, nodelay=False, keepalive=False, max_pool=None, default_noreply=True,
                 nservers=1, hash_ra=1000):
        self.__dict__.update(locals())
        del self.__dict__["self"]

    def header(self):
        return {"kind": self.kind, "tls": self.tls, "ctmo": -1 if self.ctmo is None else self.ctmo,
                "tmo": -1 if self.tmo is None else self.tmo, "idle": self.idle, "ignore_exc": self.ignore_exc, "asks": True,
                # (several properties read these traces: rejections for one must not use up the budget before another's clause)
                "maxrej": 12}

    def key(self):
        return tuple(sorted(self.__dict__.items()))


K1, K2, K3 = "k1", "k2", "k3"
NKEYS = 3                # keys per multi-key call
USE_DEFAULTS = False     # C07: pass non-None defaults (by keyword) to the read operations


def op_call(op, nr=None, kind="client"):
    """(args, kwargs) of a public call; nr: noreply argument (None = leave default)."""
    kw = {}
    if nr is not None:
        kw["noreply"] = nr
    if op in ("set", "add", "replace", "append", "prepend"):
        return (K1 if op != "add" else K3, b"5"), kw
    if op == "cas":
        return (K1, b"6", b"1"), kw
    if op == "set_many":
        return (dict(list({K1: b"1", K2: b"2", K3: b"3"}.items())[:NKEYS]),), kw
    if op == "set_many_twin":        # one wire key under two spellings in one batch: two commands, two replies
        return ({K1: b"1", K1.encode(): b"2", K2: b"3"},), kw
    if op == "get":
        return (K1,), ({"default": "DFLT"} if USE_DEFAULTS else {})
    if op == "gets":
        return (K1,), ({"default": "DFLT", "cas_default": "CASD"} if USE_DEFAULTS else {})
    if op == "gat":
        return (K1,), dict({"expire": 100}, **({"default": "DFLT"} if USE_DEFAULTS else {}))
    if op == "gats":
        return (K1,), dict({"expire": 100}, **({"default": "DFLT", "cas_default": "CASD"} if USE_DEFAULTS else {}))
    if op in ("get_many", "gets_many"):
        return ([K1, K3, K2][:NKEYS],), {}
    if op == "delete":
        return (K2,), kw
    if op == "delete_many":
        return ([K1, K2, K3][:NKEYS],), kw
    if op in ("incr", "decr"):
        return (K1, 1), kw
    if op == "touch":
        return (K1,), dict(kw, expire=100)
    if op == "flush_all":
        return (), kw
    if op in ("version", "quit", "stats"):
        return (), {}
    if op == "shutdown":
        return (), {}
    if op == "raw_command":
        return (b"version",), {}
    if op == "cache_memlimit":
        return (64,), {}
    raise ValueError(op)


ALL_OPS = [  # (op, noreply variants)
    ("set", (None, True, False)), ("add", (None, False)), ("replace", (None, False)),
    ("append", (None, False)), ("prepend", (None, False)), ("cas", (None, True)),
    ("set_many", (None, False)), ("get", (None,)), ("gets", (None,)), ("gat", (None,)), ("gats", (None,)),
    ("get_many", (None,)), ("gets_many", (None,)), ("delete", (None, False)), ("delete_many", (None, False)),
    ("incr", (None, True)), ("decr", (None, True)), ("touch", (None, False)), ("flush_all", (None, False)),
    ("version", (None,)), ("stats", (None,)), ("raw_command", (None,)), ("cache_memlimit", (None,)),
    ("quit", (None,)), ("flush_all_delay", (None, False)), ("set_many_twin", (None, False)), ("shutdown", (None,)),
    ("incr_nrnone", (None,)), ("decr_nrnone", (None,)), ("shutdown_graceful", (None,)), ("raw_command_stats", (None,)),
]


# a call made with a key the protocol cannot carry: a blank inside, a line break inside (no blank: a second command
# line if it were sent), control characters at the ends
ILLEGAL_KEY_OPS = {"get_illegal": "illegal key", "get_illegal_crlf": "nokey\r\nversion", "get_illegal_lf": "nokey\nversion",
                   "get_illegal_tab": "k\tdelete k1"}


def has_op(kind, op):
    if op == "getitem_miss":
        return kind in ("client", "pooled")
    if kind in ("hash", "hashpooled"):
        return op not in ("version", "raw_command", "raw_command_stats", "cache_memlimit", "shutdown", "shutdown_graceful")
    if kind == "pooled":
        return op not in ("cache_memlimit",)
    return True


class Stack:
    SERVER = ("mc1", 11211)
    UNIX = "/var/run/mc.sock"

    def __init__(self, cfg):
        from pymemcache.client.base import Client, PooledClient, KeepaliveOpts
        from pymemcache.client.hash import HashClient
        self.cfg = cfg
        net = self.net = fakesock.FakeNet()
        skey = self.UNIX if cfg.unix else self.SERVER
        addrs = None
        if not cfg.unix:
            fams = [net.AF_INET, net.AF_INET6, net.AF_INET]
            addrs = [(fams[i], "10.0.0.%d" % (i + 1)) for i in range(cfg.naddr)]
        self.srv = net.add_server(skey, addrs=addrs)
        for k, v in ((b"k1", b"10"), (b"k2", b"20")):
            self.srv.store[k] = refserver.Item(v, 0, 0, self.srv._next_cas())
        kw = dict(socket_module=net, connect_timeout=cfg.ctmo, timeout=cfg.tmo, no_delay=cfg.nodelay,
                  ignore_exc=cfg.ignore_exc, default_noreply=cfg.default_noreply,
                  tls_context=net.tls_context() if cfg.tls else None,
                  socket_keepalive=KeepaliveOpts() if cfg.keepalive else None)
        if cfg.kind == "client":
            self.client = Client(skey, **kw)
        elif cfg.kind == "pooled":
            self.client = PooledClient(skey, max_pool_size=cfg.max_pool, pool_idle_timeout=cfg.idle, **kw)
        else:
            self.client = HashClient([skey], use_pooling=(cfg.kind == "hashpooled"), max_pool_size=cfg.max_pool,
                                     pool_idle_timeout=cfg.idle, retry_attempts=cfg.hash_ra, retry_timeout=0.5,
                                     dead_timeout=60, **kw)
        self.calls = 0
        self.events = net.log     # the trace under construction (shared list)
        self.results = []

    def used(self):
        c = self.client
        pools = []
        if hasattr(c, "client_pool"):
            pools.append(c.client_pool)
        for inner in getattr(c, "clients", {}).values():
            if hasattr(inner, "client_pool"):
                pools.append(inner.client_pool)
        return sum(len(p.used) for p in pools)

    def tick(self, d):
        vclock.advance(d)
        self.events.append({"e": "tick", "d": d})

    def call(self, op, nr=None, plan=None, seg="all", miss=None):
        """Executes one public call; returns ('ret', value) or ('raise', exc)."""
        self.calls += 1
        c = self.calls
        plan = dict(plan or {})
        # a call the harness makes fail on purpose (an illegal key) counts as a failed call: what the stack does with the
        # connection it held is judged like after any other failure
        rfault = any(k[0] == "reply" for k in plan) or op in ILLEGAL_KEY_OPS
        kind = "quit" if op in ("quit", "shutdown", "shutdown_graceful") else "close" if op == "close" else "data"
        ro = op in READ_OPS
        # every data operation of these programs names at least one key (or is keyless like version / stats / flush_all):
        # it cannot be answered without asking the server
        asks = kind == "data" and op not in ILLEGAL_KEY_OPS
        self.events.append({"e": "call", "c": c, "op": op, "kind": kind, "rfault": rfault, "ro": ro, "asks": asks})
        self.net.begin_call(c, plan, seg)
        if op in ("close", "getitem_miss") or op in ILLEGAL_KEY_OPS:
            args, kw = (), {}
        elif op == "flush_all_delay":
            args, kw = op_call("flush_all", nr, self.cfg.kind)
        elif op == "set_many_twin":
            args, kw = op_call("set_many_twin", nr, self.cfg.kind)
        elif op in ("incr_nrnone", "decr_nrnone", "shutdown_graceful", "raw_command_stats"):
            args, kw = (), {}
        else:
            args, kw = op_call(op, nr, self.cfg.kind)
        try:
            if op in ILLEGAL_KEY_OPS:
                val = self.client.get(ILLEGAL_KEY_OPS[op])       # rejected before any exchange
            elif op == "getitem_miss":
                val = self.client["absent-key"]                  # KeyError for a plain miss
            elif op == "flush_all_delay":
                val = self.client.flush_all(delay=30, **kw)
            elif op == "set_many_twin":
                val = self.client.set_many(*args, **kw)
            elif op in ("incr_nrnone", "decr_nrnone"):
                val = getattr(self.client, op[:4])(K1, 1, noreply=None)      # None is falsy: the call waits for the number
            elif op == "shutdown_graceful":
                val = self.client.shutdown(graceful=True)
            elif op == "raw_command_stats":
                val = self.client.raw_command(b"stats", b"END\r\n")      # a reply that ends with a token of its own
            else:
                val = getattr(self.client, op)(*args, **kw)
        except BaseException as exc:   # noqa: B902 -- the harness must see interrupts too
            x = "exc" if isinstance(exc, Exception) else "base"
            self.events.append({"e": "raise", "c": c, "x": x, "xn": type(exc).__name__,
                                "pend": self.net.boundary(), "used": self.used()})
            self.results.append(("raise", exc))
            return "raise", exc
        shape = "other"
        if miss is not None:
            mv = miss(op, nr)
            if type(val) is type(mv) and val == mv:
                shape = "miss"
            if isinstance(val, dict):
                val["__caller_wrote_this__"] = 1      # read-through callers fill the dict they got: it must not be shared
        self.events.append({"e": "ret", "c": c, "pend": self.net.boundary(), "used": self.used(), "shape": shape})
        self.results.append(("ret", val))
        return "ret", val

    def finish(self):
        self.call("close")
        self.events.append({"e": "end"})
        return {"h": self.cfg.header(), "ev": list(self.events)}


_miss_cache = {}


def miss_result(cfg):
    """what the same call returns for a miss: computed on an empty healthy server of the same stack"""
    def f(op, nr):
        key = (cfg.kind, cfg.default_noreply, op, nr, USE_DEFAULTS, NKEYS)
        if key not in _miss_cache:
            c2 = Cfg(**{**cfg.__dict__, "ignore_exc": cfg.ignore_exc})
            st = Stack(c2)
            st.srv.store.clear()
            _miss_cache[key] = st.call(op, nr)[1]
        return _miss_cache[key]
    return f


def count_ops(cfg, warm, op, nr):
    """Socket-call counts of a fault-free execution of (op, nr): the space of fault positions."""
    st = Stack(cfg)
    for w in warm:
        st.call(*w)
    st.call(op, nr)
    counters = dict(st.net.counters)
    ncmds = st.net.cmd_counter
    units = list(st.net.units)
    count_ops.bounds = dict(st.net.unit_bounds)
    return counters, ncmds, units


FAULT_KINDS = {
    "getaddrinfo": ["gai"],
    "socket": ["emfile"],
    "setsockopt": ["oserror"],
    "wrap": ["ssl"],
    "settimeout": ["oserror"],
    "connect": ["refused", "timeout"],
    "sendall": ["reset", "timeout", "partial"],
    "recv": ["timeout", "reset", "eof", "eintr"],
    "close": ["oserror", "runtime"],
}
REPLY_FAULTS = ["error", "client_error", "server_error", "garbage", "badvalue", "foreign", "two_line_error", "surplus"]
INTERRUPT_KINDS = ["kbd", "sysexit", "gevent"]


# raw_command() with an end token of the caller's: a reply that never contains the token (an error line, garbage) makes the
# call wait for it -- the known finding recorded under C19 (its only user in the library); socket-level faults only here
NO_REPLY_FAULTS = ("raw_command_stats",)


def fault_plans(cfg, warm, op, nr, interrupts=False, trunc_all=False):
    """All single-fault plans for one call: every socket call of the operation x applicable kinds,
    every command's reply x {error lines, garbage, truncation points}."""
    counters, ncmds, units = count_ops(cfg, warm, op, nr)
    plans = []
    for optype, n in sorted(counters.items()):
        kinds = INTERRUPT_KINDS if interrupts else FAULT_KINDS.get(optype, [])
        for k in range(1, n + 1):
            for kind in kinds:
                plans.append({(optype, k): kind})
    if interrupts:
        # an ordinary failure whose clean-up (the error-path close()) is itself interrupted, before or after the
        # descriptor is closed
        first = []
        if counters.get("recv"):
            first += [{("recv", 1): "timeout"}, {("recv", counters["recv"]): "reset"}]
        if counters.get("sendall"):
            first.append({("sendall", 1): "timeout"})
        for (cid, idx, nbytes) in units[:2]:
            if nbytes and op not in NO_REPLY_FAULTS:
                first += [{("reply", idx): "garbage"}, {("reply", idx): ("trunc", max(0, nbytes // 2), False)}]
        for k in range(1, counters.get("sendall", 0) + 1):
            for kind in INTERRUPT_KINDS:
                plans.append({("sendall", k): ("half", kind)})      # interrupted with the request half sent
        for fp in first:
            for kind in INTERRUPT_KINDS:
                plans.append({**fp, ("close", 1): ("pre", kind)})
                plans.append({**fp, ("close", 1): kind})
    if not interrupts and op not in NO_REPLY_FAULTS:
        for (cid, idx, nbytes) in units:
            if nbytes == 0:
                continue
            for rf in REPLY_FAULTS:
                plans.append({("reply", idx): rf})
            # (for longer replies: both ends, the middle, and right after / one byte into every line -- the stream then ends
            # after a complete VALUE header, inside the data block, before END)
            lines = {c for b in count_ops.bounds.get(idx, []) for c in (b, b + 1) if c < nbytes}
            cuts = range(0, nbytes) if (trunc_all or nbytes <= 12) else sorted({0, 1, nbytes // 2, nbytes - 2, nbytes - 1} | lines)
            for cut in cuts:
                plans.append({("reply", idx): ("trunc", cut, True)})
            plans.append({("reply", idx): ("trunc", max(0, nbytes // 2), False)})   # then silence -> timeout
    return plans


def plan_text(plan):
    return ";".join(f"{k[0]}#{k[1]}={v}" for k, v in sorted(plan.items(), key=str))


def run_program(cfg, steps, miss=None):
    """steps: list of ('call', op, nr, plan, seg) | ('tick', d).  Returns the trace dict."""
    st = Stack(cfg)
    for s in steps:
        if s[0] == "tick":
            st.tick(s[1])
        elif s[0] == "repoint":
            st.net.repoint(Stack.SERVER[0])      # the server moves to another address (same name)
        else:
            _, op, nr, plan, seg = s
            # a truncated reply followed by silence is a read timeout on a real socket
            plan = dict(plan or {})
            for k, v in list(plan.items()):
                if k[0] == "reply" and isinstance(v, tuple) and v[0] == "trunc" and not v[2]:
                    pass
            st.call(op, nr, plan, seg, miss)
    tr = st.finish()
    tr["steps"] = [(s[0], s[1], s[2] if len(s) > 2 else None, plan_text(s[3]) if len(s) > 3 and s[3] else "",
                    str(s[4]) if len(s) > 4 else "") for s in steps]
    tr["cfg"] = {k: v for k, v in cfg.__dict__.items()}
    return tr


def validate(rep, traces, relevant, prop, sigfn=None):
    """TLC validation of all traces against ConnRule; report rejections whose clause is relevant."""
    tl = [{"h": t["h"], "ev": t["ev"]} for t in traces]
    acc, rej, st, tr = tlc.validate_traces("ConnTrace", tl, chunk=3000)
    rep.add("traces_validated_against_impl", len(tl))
    rep.add("trace_states", st)
    other = 0
    for i, lst in sorted(rej.items()):
        t = traces[i]
        for pos, clauses in lst:
            names = [c.strip().strip('"') for c in clauses.strip("{}").split(",")]
            rel = [n for n in names if relevant(n)]
            ev = t["ev"][pos - 1] if pos <= len(t["ev"]) else {"e": "<end>"}
            if not rel:
                other += 1
                if os.environ.get("VERIF_DEBUG_OTHER"):
                    print("OTHER", names, t["h"]["kind"], t["h"].get("ignore_exc"), [x[1] for x in t["steps"] if x[0] == "call"], file=sys.stderr)
                continue
            # which call was running
            callev = None
            for e in t["ev"][:pos]:
                if e["e"] == "call":
                    callev = e
            step = ""
            if callev:
                k = callev["c"] - 1
                calls = [s for s in t["steps"] if s[0] == "call"]
                if k < len(calls):
                    step = f"{calls[k][1]}[{calls[k][3]}]"
            first = next((s for s in t["steps"] if s[0] == "call" and s[3]), None)
            sig = f"{prop}/{t['h']['kind']}/{','.join(sorted(rel))}/{first[1] if first else (callev or {}).get('op')}"
            if sigfn:
                sig = sigfn(sig, t, rel)
            rep.violation(sig,
                          f"{t['h']['kind']} stack: program {t['steps']} rejected at event {pos} {ev} "
                          f"(during {step}): {rel}",
                          {"cfg": t["cfg"], "steps": t["steps"], "rejected_at": pos, "clauses": rel,
                           "events": t["ev"][max(0, pos - 12): pos + 2]})
    if other:
        rep.add("rejections_for_other_properties", other)
    return acc, rej


FOLLOWUPS = [
    [("add", False), ("get", None)],
    [("set", True), ("get_many", None)],
    [("gets", None), ("delete", False)],
    [("incr", None), ("set_many", False)],
]
SEGS = ["all", "bytes", (1, 2, 3, 5, 8, 13), "all"]


def gen_fault_programs(kinds, ops, tier, interrupts=False, ignore_exc=False, seed=0, cfg_extra=None,
                       warm_modes=(False, True), quick_stride=2):
    """Programs = [warm-up] + faulted call + tick + follow-up calls, for every single-fault plan of
    every (op, noreply) on the given stacks.  quick: each (op, plan) runs on a rotating subset."""
    import random as _random
    progs = []
    n = seed
    pick = _random.Random(seed * 7919 + len(kinds))
    for op, nrs in ops:
        for nr in nrs:
            for warm in warm_modes:
                for ki, kind in enumerate(kinds):
                    if not has_op(kind, op):
                        continue
                    cfg = Cfg(kind=kind, ignore_exc=ignore_exc, default_noreply=(n % 3 != 0), **(cfg_extra or {}))
                    warmup = [("set", False)] if warm else []
                    try:
                        plans = fault_plans(cfg, warmup, op, nr, interrupts=interrupts, trunc_all=(tier == "thorough"))
                    except Exception as e:   # the op itself does not work fault-free on this stack
                        raise common.MachineryError(f"fault-free run of {op} on {kind} failed: {e!r}")
                    for pi, plan in enumerate(plans):
                        n += 1
                        if tier == "quick" and quick_stride > 1 and pick.random() >= 1.0 / quick_stride:
                            continue      # seeded random sample (a strided walk would alias with the plan order)
                        fus = [FOLLOWUPS[n % len(FOLLOWUPS)]] if tier == "quick" else FOLLOWUPS[: 2 + (n % 2)]
                        for fu in fus:
                            steps = [("call", w[0], w[1], None, "all") for w in warmup]
                            steps.append(("call", op, nr, plan, SEGS[n % len(SEGS)]))
                            steps.append(("tick", 2))
                            for f in fu:
                                if has_op(kind, f[0]):
                                    steps.append(("call", f[0], f[1], None, SEGS[(n // 2) % len(SEGS)]))
                            progs.append((cfg, steps))
    return progs
