"""C09 -- a failed pooled connection is discarded and pool capacity is conserved.
All sequences (length 2 quick / 3 thorough) of PooledClient operations x per-operation fault choice
x idle gaps below / at / above pool_idle_timeout x max_pool_size in {1, 2, unbounded} x ignore_exc,
on PooledClient and pooled HashClient, with a virtual clock.  Oracle: C09 clauses of
spec/ConnRule.tla (failed socket dead, healthy socket reused, idle expiry, used = 0) plus the
socket-lifecycle clauses they rest on."""
import itertools

from lib import common, vclock
from drivers import connlib as L

PROP = "C09"


def relevant(c):
    return c.startswith("C09-") or c in ("C06-failed-socket-never-used-again",
                                        "C06-failed-socket-closed-by-the-end-of-the-call",
                                        "C06-at-most-one-open-socket-per-server")


OPS = [("get", None), ("set", False), ("incr", False), ("set_many", None), ("delete_many", False)]
FAULTS = [None, {("recv", 1): "timeout"}, {("reply", 0): "client_error"}, {("sendall", 1): "reset"},
          {("recv", 1): "eof"}, {("connect", 1): "refused"}, {("reply", 0): ("trunc", 3, True)}, {("reply", 0): "badvalue"}]
IDLE = 5
GAPS = [1, 5, 6]


def main(tier, rep):
    vclock.install()
    common.import_repo()
    T0 = common._real_time()
    # the two as-coded models are explored by TLC in the background while the programs below run on the real code
    import threading
    from drivers import connmodel
    box = {}

    def models():
        try:
            box["conn"] = connmodel.tlc_run(rep, tier, False, pooled=True, idle=1)
            # (quick: the pool model too; thorough: that one is run configuration by configuration later, for memory)
            box["pool"] = list(pool_model_tlc(rep, tier)) if tier == "quick" else None
        except BaseException as e:   # noqa
            box["err"] = e
    th = threading.Thread(target=models)
    th.start()
    length = 2 if tier == "quick" else 3
    ops = OPS[:3]
    faults = FAULTS if tier == "quick" else FAULTS[:5] + FAULTS[7:]
    step_choices = [(op, nr, f, g) for (op, nr) in ops for f in faults for g in GAPS]
    traces = []
    n = common.seed()
    cfgs = []
    for kind in ("pooled", "hashpooled"):
        for idle in (0, IDLE):
            for mp in (1, 2, None):
                for ign in (False, True):
                    cfgs.append(dict(kind=kind, idle=idle, max_pool=mp, ignore_exc=ign))
    seqs = list(itertools.product(step_choices, repeat=length))
    import random
    pick = random.Random(common.seed() + 99)
    stats = {"n": 0, "distinct": set(), "samples": []}

    def flush(force=False):
        """validate what has accumulated and let it go (the thorough tier produces more traces than fit in memory at once)"""
        if not traces or (len(traces) < 20000 and not force):
            return
        L.validate(rep, traces, relevant, PROP)
        stats["n"] += len(traces)
        for t in traces:
            if any(s_[0] == "call" and s_[3] for s_ in t["steps"]) or t["cfg"]["idle"]:
                stats["distinct"].add(hash((t["h"]["kind"], t["cfg"]["idle"], t["cfg"]["max_pool"], t["cfg"]["ignore_exc"]) +
                                           tuple((s_[1], s_[2], s_[3]) for s_ in t["steps"])))
        if len(stats["samples"]) < 4:
            stats["samples"] += traces[11::max(1, len(traces) // 4)][:4 - len(stats["samples"])]
        del traces[:]
    for ci, ce in enumerate(cfgs):
        for si, seq in enumerate(seqs):
            n += 1
            # every configuration sees every sequence in thorough; a rotating third in quick
            if tier == "quick" and pick.random() >= 0.07:
                continue
            if tier == "thorough" and (si + ci) % 24 != 0:
                continue
            cfg = L.Cfg(default_noreply=(n % 2 == 0), **ce)
            steps = []
            for (op, nr, f, g) in seq:
                steps.append(("call", op, nr, f, L.SEGS[n % 4]))
                steps.append(("tick", g))
            steps.append(("call", "add", False, None, "all"))
            traces.append(L.run_program(cfg, steps, miss=L.miss_result(cfg)))
            flush()
    if tier != "quick":
        # all five operations (multi-command ones included) in every pair of steps
        sc2 = [(op, nr, f, g) for (op, nr) in OPS for f in faults for g in GAPS]
        for ci, ce in enumerate(cfgs):
            for si, seq in enumerate(itertools.product(sc2, repeat=2)):
                n += 1
                if (si + ci) % 3:
                    continue
                cfg = L.Cfg(default_noreply=(n % 2 == 0), **ce)
                steps = []
                for (op, nr, f, g) in seq:
                    steps += [("call", op, nr, f, L.SEGS[n % 4]), ("tick", g)]
                steps.append(("call", "add", False, None, "all"))
                traces.append(L.run_program(cfg, steps, miss=L.miss_result(cfg)))
                flush()
    # every public operation x every single-fault plan (each socket call, each reply) on the pooled stacks, warm and fresh
    for mp in (1, None):
        for cfgp, steps in L.gen_fault_programs(["pooled", "hashpooled"], L.ALL_OPS, tier, seed=common.seed() + (mp or 0),
                                                cfg_extra={"max_pool": mp, "idle": IDLE}, quick_stride=3):
            traces.append(L.run_program(cfgp, steps))
            flush()
    # the same with the connection options that add steps to connecting and closing (TLS wrapper, TCP_NODELAY, keepalive)
    for extra in ({"tls": True}, {"nodelay": True, "keepalive": True}):
        few = [("set", (False,)), ("get", (None,)), ("incr", (False,)), ("delete_many", (False,))]
        for cfgp, steps in L.gen_fault_programs(["pooled"], few if tier == "quick" else L.ALL_OPS, tier, seed=common.seed() + 17,
                                                cfg_extra=dict(extra, max_pool=1), quick_stride=3, warm_modes=(True,)):
            traces.append(L.run_program(cfgp, steps))
    # calls that fail without any connection fault (a rejected key, a dict-style read of an absent key): the healthy
    # connection is kept, and still nothing stays checked out
    for kind in ("pooled", "hashpooled"):
        for mp in (1, None):
            for idle in (0, IDLE):
                for special in ("get_illegal", "getitem_miss"):
                    if not L.has_op(kind, special):
                        continue
                    cfg = L.Cfg(kind=kind, max_pool=mp, idle=idle)
                    steps = [("call", "set", False, None, "all"), ("tick", 1), ("call", special, None, None, "all"), ("tick", 1),
                             ("call", "get", None, None, "all"), ("call", special, None, None, "bytes"), ("call", "add", False, None, "all")]
                    traces.append(L.run_program(cfg, steps))
    rep.set("t_programs_s", round(common._real_time() - T0, 1)); T0 = common._real_time()
    flush(force=True)
    rep.set("t_validate_s", round(common._real_time() - T0, 1)); T0 = common._real_time()
    # spec -> code: the pooled + idle-clock variant of the as-coded model spec/Conn.tla
    npool = pool_level(rep, tier)
    rep.set("t_pool_level_s", round(common._real_time() - T0, 1)); T0 = common._real_time()
    th.join()
    if "err" in box:
        raise box["err"]
    rep.set("t_wait_for_models_s", round(common._real_time() - T0, 1)); T0 = common._real_time()
    connmodel.design_and_replay(rep, tier, PROP, relevant, kinds=["pooled", "hashpooled"], pooled=True, idle=1, r=box["conn"])
    rep.set("t_conn_model_s", round(common._real_time() - T0, 1)); T0 = common._real_time()
    rep.set("pool_model_behaviours_replayed", pool_model(rep, tier, box["pool"]))
    rep.set("t_pool_model_s", round(common._real_time() - T0, 1))
    rep.set("pool_level_histories", npool)
    rep.set("evaluations", stats["n"])
    rep.set("distinct_nontrivial", len(stats["distinct"]))
    rep.set("rule", f"every sequence of {length} steps over (op, fault choice, idle gap) x pool configuration "
                    "(rotating subset per configuration); non-trivial = a fault is injected or an idle timeout is configured; "
                    "distinct by (configuration, step sequence)")
    for t in stats["samples"][:4]:
        rep.sample({"cfg": {k: t["cfg"][k] for k in ("kind", "idle", "max_pool", "ignore_exc")}, "program": t["steps"]})
    rep.assumptions += ["sequential use: one call at a time (concurrent use is C08)",
                        "connection identity = socket identity at the socket_module seam"]


def pool_model_tlc(rep, tier):
    """the TLC part of pool_model(): yields (max_size, idle, TLC result, exported rows) configuration by configuration, after
    the sanity run of the LIFO variant"""
    from lib import tlc
    depth = 7 if tier == "quick" else 9

    def cfg(ms, idle, lifo=False, export=True):
        return (f"SPECIFICATION Spec\nCONSTANTS\n  MaxSize = {ms}\n  Idle = {idle}\n  Depth = {depth}\n  MaxObj = {ms + 3}\n"
                f"  Export = {'TRUE' if export else 'FALSE'}\n  Lifo = {'TRUE' if lifo else 'FALSE'}\nVIEW view\nINVARIANT MonitorOK\n"
                "INVARIANT Books\nCHECK_DEADLOCK FALSE\n")
    r = tlc.run("PoolSeq", cfg_text=cfg(2, 5, lifo=True, export=False), workers=8, timeout=900)
    if r.error:
        raise common.MachineryError(r.error)
    if r.ok:
        raise common.MachineryError("vacuous pool model: the LIFO variant satisfies the contract")
    for ms, idle in (((2, 5), (3, 5), (2, 0), (2, 1)) if tier == "quick" else ((2, 5), (3, 5), (1, 5), (2, 0), (2, 3), (2, 1), (3, 1))):
        r = tlc.run("PoolSeq", cfg_text=cfg(ms, idle), workers=16, timeout=3000)
        if r.error:
            raise common.MachineryError(r.error)
        yield ms, idle, r, r.json_lines("EXP")


def pool_model(rep, tier, pre=None):
    """spec/PoolSeq.tla: the as-coded sequential pool with its idle clock, carrying the PoolRule monitor.  TLC explores every
    sequence up to Depth (state-deduplicated), checks the contract and the books, and exports a state-covering set of behaviours
    with the events it predicts; each is replayed on the real ObjectPool: TLC validates the recorded trace, and a trace that
    differs from the prediction although the contract accepts it is MODEL-DRIFT.  With Lifo = TRUE (a seeded defect) the model
    must violate the contract.  One configuration at a time (the thorough tier exports more than fits in memory at once)."""
    from pymemcache import pool as P
    from lib import tlc
    total = 0
    for ms, idle, r, rows in (pre if pre is not None else pool_model_tlc(rep, tier)):
        if not r.ok:
            rep.violation(f"C09/model/PoolSeq/max{ms}-idle{idle}/" + ",".join(r.invariants_violated),
                          "as-coded sequential pool model violates the contract", tlc.first_error_trace(r))
        rep.add("states", r.distinct)
        rep.add("transitions", r.generated)
        rep.add("pool_model_behaviours_exported", len(rows))
        traces, predicted = [], []
        for ri, row in enumerate(rows):
            # model time units are whole numbers; on the real pool they are seconds, or half seconds (idle_timeout 2.5 / 1.5 s)
            scale = 0.5 if (idle and ri % 3 == 0) else 1
            ev = run_pool_seq(P, row["seq"], ms, idle, scale=scale)
            traces.append({"h": {"max": ms, "idle": idle, "maxrej": 3}, "ev": ev, "seq": row["seq"], "scale": scale})
            predicted.append(row["ev"])
        del rows
        total += len(traces)
        if not traces:
            continue
        acc, rej, st, _ = tlc.validate_traces("PoolTrace", [{"h": t["h"], "ev": t["ev"]} for t in traces], chunk=5000)
        rep.add("traces_validated_against_impl", len(traces))
        rep.add("trace_states", st)
        for i, lst in sorted(rej.items()):
            t = traces[i]
            pos, clauses = lst[0]
            cl = ",".join(sorted(x.strip().strip('"') for x in clauses.strip("{}").split(",")))
            rep.violation(f"C09/pool-level/{cl}", f"ObjectPool(max={t['h']['max']}, idle_timeout={t['h']['idle']}) model behaviour {t['seq']}: "
                          f"event {pos} {t['ev'][pos - 1]} rejected: {cl}", {"seq": t["seq"], "header": t["h"], "events": t["ev"]})
        for i, t in enumerate(traces):
            if i in acc and t["ev"] != predicted[i]:
                rep.model_drift("the real ObjectPool's trace differs from the as-coded model's prediction but satisfies the contract",
                                {"seq": t["seq"], "header": t["h"], "events": t["ev"][:40], "model": predicted[i][:40]})
    if total < 500:
        raise common.MachineryError("vacuous export from PoolSeq: %d behaviours" % total)
    return total


def run_pool_seq(P, seq, maxsize, idle, scale=1):
    """one sequence over {G, R<i>, D<i>, T<d>} on a fresh real ObjectPool; returns the recorded events.  scale: one model time
    unit = `scale` seconds on the pool's clock (idle timeouts need not be whole seconds)"""
    vclock.set_now(9_000_000)
    ids = {}
    ev = []

    class Obj:
        pass

    def oid(o):
        return ids.setdefault(id(o), len(ids) + 1)
    keep = []

    def creator():
        o = Obj()
        keep.append(o)
        ev.append({"e": "create", "t": 1, "o": oid(o)})
        return o
    pool = P.ObjectPool(creator, after_remove=lambda o: ev.append({"e": "close", "t": 1, "o": oid(o)}),
                        max_size=maxsize, idle_timeout=idle * scale)
    mine = []

    def snap():
        ev.append({"e": "snap", "used": [oid(o) for o in pool.used], "free": [oid(o) for o in pool.free]})
    for a in seq:
        if a == "G":
            ev.append({"e": "call", "t": 1, "m": "get", "o": 0})
            try:
                o = pool.get()
            except RuntimeError as e:
                ev.append({"e": "raise", "t": 1, "m": "get", "x": "capacity" if "Too many" in str(e) else "other"})
                snap()
                continue
            mine.append(o)
            snap()
            ev.append({"e": "ret", "t": 1, "m": "get", "o": oid(o)})
        elif a[0] in "RD":
            i = int(a[1])
            if i >= len(mine):
                continue
            o = mine.pop(i)
            m = "release" if a[0] == "R" else "destroy"
            ev.append({"e": "call", "t": 1, "m": m, "o": oid(o)})
            getattr(pool, m)(o)
            snap()
            ev.append({"e": "ret", "t": 1, "m": m, "o": oid(o)})
        else:
            d = int(a[1])
            vclock.advance(d * scale)
            ev.append({"e": "tick", "d": d})
    return ev


def pool_level(rep, tier):
    """The pool beneath PooledClient with SEVERAL connections outstanding (what overlapping calls produce):
    every sequence over {get, release i, destroy i, tick} up to a length bound on the real ObjectPool with an
    idle timeout, validated by TLC against spec/PoolRule.tla (idle-expired connections are closed, never
    handed out; healthy ones are reused; nothing closed twice)."""
    import itertools
    from pymemcache import pool as P
    from lib import tlc
    length = 7 if tier == "quick" else 8
    alphabet = ["G", "R0", "R1", "R2", "D0", "D1", "T2", "T4"]
    traces = []
    for idle, maxsize in ((5, 3), (5, 2), (0, 2)):
        for seq in itertools.product(alphabet, repeat=length):
            # prune: releases/destroys must refer to a held connection
            held = 0
            ok = True
            for a in seq:
                if a == "G":
                    held += 1
                elif a[0] in "RD":
                    if int(a[1]) >= held:
                        ok = False
                        break
                    held -= 1
            if not ok or seq[0] != "G" or seq.count("G") < 2 or not any(a[0] == "T" for a in seq):
                continue
            ev = run_pool_seq(P, seq, maxsize, idle)
            traces.append({"h": {"max": maxsize, "idle": idle, "maxrej": 3}, "ev": ev, "seq": seq})
    import random
    if tier == "quick" and len(traces) > 2000:
        random.Random(common.seed()).shuffle(traces)
        traces = traces[:2000]
    acc, rej, st, _ = tlc.validate_traces("PoolTrace", [{"h": t["h"], "ev": t["ev"]} for t in traces], chunk=5000)
    rep.add("traces_validated_against_impl", len(traces))
    rep.add("trace_states", st)
    for i, lst in sorted(rej.items()):
        t = traces[i]
        pos, clauses = lst[0]
        cl = ",".join(sorted(x.strip().strip('"') for x in clauses.strip("{}").split(",")))
        rep.violation(f"C09/pool-level/{cl}", f"ObjectPool(max={t['h']['max']}, idle_timeout={t['h']['idle']}) sequence {t['seq']}: "
                      f"event {pos} {t['ev'][pos - 1]} rejected: {cl}", {"seq": t["seq"], "header": t["h"], "events": t["ev"]})
    return len(traces)
