"""C09 -- a failed pooled connection is discarded and pool capacity is conserved.
All sequences (length 2 quick / 3 thorough) of PooledClient operations x per-operation fault choice
x idle gaps below / at / above pool_idle_timeout x max_pool_size in {1, 2, unbounded} x ignore_exc,
on PooledClient and pooled HashClient, with a virtual clock.  Oracle: C09 clauses of
spec/ConnRule.tla (failed socket dead, healthy socket reused, idle expiry, used = 0) plus the
socket-lifecycle clauses they rest on."""
import itertools

from lib import common, vclock
from drivers import connlib as L

PROP = "C09"


def relevant(c):
    return c.startswith("C09-") or c in ("C06-failed-socket-never-used-again",
                                        "C06-failed-socket-closed-by-the-end-of-the-call",
                                        "C06-at-most-one-open-socket-per-server")


OPS = [("get", None), ("set", False), ("set_many", None), ("delete_many", False)]
FAULTS = [None, {("recv", 1): "timeout"}, {("reply", 0): "client_error"}, {("sendall", 1): "reset"},
          {("recv", 1): "eof"}, {("connect", 1): "refused"}, {("reply", 0): ("trunc", 3, True)}]
IDLE = 5
GAPS = [1, 5, 6]


def main(tier, rep):
    vclock.install()
    common.import_repo()
    length = 2 if tier == "quick" else 3
    ops = OPS[:2] if tier == "quick" else OPS[:3]
    faults = FAULTS if tier == "quick" else FAULTS[:5]
    step_choices = [(op, nr, f, g) for (op, nr) in ops for f in faults for g in GAPS]
    traces = []
    n = common.seed()
    cfgs = []
    for kind in ("pooled", "hashpooled"):
        for idle in (0, IDLE):
            for mp in (1, 2, None):
                for ign in (False, True):
                    cfgs.append(dict(kind=kind, idle=idle, max_pool=mp, ignore_exc=ign))
    seqs = list(itertools.product(step_choices, repeat=length))
    for ci, ce in enumerate(cfgs):
        for si, seq in enumerate(seqs):
            n += 1
            # every configuration sees every sequence in thorough; a rotating third in quick
            if tier == "quick" and (si + ci) % 3 != 0:
                continue
            if tier == "thorough" and (si + ci) % 4 != 0:
                continue
            cfg = L.Cfg(default_noreply=(n % 2 == 0), **ce)
            steps = []
            for (op, nr, f, g) in seq:
                steps.append(("call", op, nr, f, L.SEGS[n % 4]))
                steps.append(("tick", g))
            steps.append(("call", "add", False, None, "all"))
            traces.append(L.run_program(cfg, steps, miss=L.miss_result(cfg)))
    L.validate(rep, traces, relevant, PROP)
    rep.set("evaluations", len(traces))
    rep.set("distinct_nontrivial", len({(t["h"]["kind"], t["cfg"]["idle"], t["cfg"]["max_pool"], t["cfg"]["ignore_exc"]) +
                                        tuple((s[1], s[2], s[3]) for s in t["steps"]) for t in traces
                                        if any(s[0] == "call" and s[3] for s in t["steps"]) or t["cfg"]["idle"]}))
    rep.set("rule", f"every sequence of {length} steps over (op, fault choice, idle gap) x pool configuration "
                    "(rotating subset per configuration); non-trivial = a fault is injected or an idle timeout is configured; "
                    "distinct by (configuration, step sequence)")
    for t in traces[11::max(1, len(traces) // 4)][:4]:
        rep.sample({"cfg": {k: t["cfg"][k] for k in ("kind", "idle", "max_pool", "ignore_exc")}, "program": t["steps"]})
    rep.assumptions += ["sequential use: one call at a time (concurrent use is C08)",
                        "connection identity = socket identity at the socket_module seam"]
