"""spec -> code for the connection-level properties: TLC explores the as-coded model spec/Conn.tla
against the contract monitor (design check) and prints, at every call boundary, the program that
led there; every program is replayed into the real clients through the fake socket module, the
recorded execution is validated against the contract (verdict) and compared with the model's
predicted events (MODEL-DRIFT only)."""
from lib import common, tlc
from drivers import connlib as L

SHAPE_OPS = {
    "store1": ["set", "add", "replace", "append", "prepend", "cas"],
    "store2": ["set_many"],
    "fetch": ["get", "gets", "get_many", "gets_many", "gat", "gats", "stats"],
    "misc1": ["delete", "touch", "flush_all"],
    "count1": ["incr", "decr"],
    "misc2": ["delete_many"],
    "quit": ["quit"],
}


def tlc_run(rep, tier, interrupts, fixed=True, pooled=False, idle=0):
    maxcalls = 2 if tier == "quick" else 3
    cfg = f"""SPECIFICATION Spec
CONSTANTS
  MaxCalls = {maxcalls}
  Export = TRUE
  Interrupts_On = {'TRUE' if interrupts else 'FALSE'}
  Fixed = {'TRUE' if fixed else 'FALSE'}
  Pooled = {'TRUE' if pooled else 'FALSE'}
  Idle = {idle}
VIEW view
INVARIANT {'NoC01' if interrupts else 'MonitorOK'}
CHECK_DEADLOCK FALSE
"""
    r = tlc.run("Conn", cfg_text=cfg, workers=16, timeout=3000)
    if r.error:
        raise common.MachineryError(r.error)
    rep.set("checker_cmd", r.cmd)
    rep.add("states", r.distinct)
    rep.add("transitions", r.generated)
    return r


def concretise(prog, n, kinds, idle=0):
    """model program -> (cfg, steps, expected per-call events)"""
    c = prog["cfg"]
    kind = kinds[n % len(kinds)]
    cfg = L.Cfg(kind=kind, tls=c["tls"], naddr=max(1, c["naddr"]), unix=(c["naddr"] == 0), nodelay=c["nodelay"],
                ignore_exc=c["ignore_exc"], default_noreply=(n % 2 == 0), idle=idle)
    steps, exp = [], []
    for i, call in enumerate(prog["calls"]):
        if call["shape"] == "tick":
            steps.append(("tick", 1))
            continue
        ops = [o for o in SHAPE_OPS[call["shape"]] if L.has_op(kind, o)]
        op = ops[(n + i) % len(ops)]
        nr = None
        if call["shape"] in ("store1", "store2", "misc1", "misc2", "count1"):
            nr = bool(call["nr"])
        f = call["fault"]
        plan = None
        if f["op"] == "reply":
            plan = {("reply", f["k"]): f["kind"]}
        elif f["op"] != "none":
            plan = {(f["op"], f["k"]): f["kind"]}
        steps.append(("call", op, nr, plan, "units"))
        exp.append((call["outcome"], [tuple(e) for e in call["evs"]]))
    return cfg, steps, exp


def per_call_events(ev):
    out, cur = [], None
    for e in ev:
        if e["e"] == "call":
            cur = [("call", "none")]
        elif cur is not None:
            if e["e"] == "tick":
                continue
            cur.append((e["e"], e.get("fault", "none")))
            if e["e"] in ("ret", "raise"):
                out.append(cur)
                cur = None
    return out


def design_and_replay(rep, tier, prop, relevant, interrupts=False, kinds=None, pooled=False, idle=0, r=None):
    """r: the result of tlc_run() when the caller has already run the model (in the background)"""
    r = r or tlc_run(rep, tier, interrupts, pooled=pooled, idle=idle)
    if not r.ok:
        rep.violation(f"{prop}/model/" + ",".join(r.invariants_violated),
                      "the as-coded model spec/Conn.tla violates the contract: " + ",".join(r.invariants_violated),
                      tlc.first_error_trace(r))
    progs = r.json_lines("EXP")
    if len(progs) < 100:
        raise common.MachineryError("vacuous export from Conn.tla: %d programs" % len(progs))
    rep.set("model_programs_exported", len(progs))
    kinds = kinds or L.KINDS
    L.NKEYS = 2
    try:
        traces, expected = [], []
        stride = 1
        import random
        pick = random.Random(common.seed() + 17)
        # (thorough: everything up to 250k programs -- the pooled model with an idle clock exports three times as many, which
        # does not fit in memory once replayed; then a seeded sample of that size)
        keep = min(1.0, (4000.0 / len(progs)) if tier == "quick" else (250000.0 / len(progs)))
        for n, p in enumerate(progs):
            if pick.random() >= keep:
                continue
            cfg, steps, exp = concretise(p, n, kinds, idle)
            traces.append(L.run_program(cfg, steps, miss=L.miss_result(cfg) if cfg.ignore_exc else None))
            expected.append(exp)
    finally:
        L.NKEYS = 3
    acc, rej = L.validate(rep, traces, relevant, prop)
    rep.set("model_programs_replayed", len(traces))
    ndrift = 0
    for i, t in enumerate(traces):
        if i not in acc or t["h"]["kind"] != ("pooled" if pooled else "client"):
            continue      # the model describes Client (or, with Pooled, a Client inside a pool); other stacks add behaviour on top
        real = per_call_events(t["ev"])[:-1]     # drop the final close() call
        for (outcome, evs), rl in zip(expected[i], real):
            if [tuple(x) for x in evs] != rl:
                ndrift += 1
                if ndrift <= 5:
                    rep.model_drift("execution differs from spec/Conn.tla's prediction (contract satisfied)",
                                    {"stack": t["h"]["kind"], "program": t["steps"], "model": evs, "real": rl})
                elif ndrift < 100000:
                    rep.drift.append(None)
                break
    rep.sample({"model_program": progs[len(progs) // 2]})
