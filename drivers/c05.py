"""C05 -- return values report the server's actual outcome over any history.
TLC explores the abstract cache (spec/Cache.tla over spec/CacheRule.tla) exhaustively to depth 2
(quick) / 3 with a reduced alphabet (thorough) and by random simulation for long histories, and
prints every history; each is replayed into the real Client against the reference server (str and
bytes keys, key prefix, default_noreply on/off, noreply passed or left to the documented default,
reply segmentations); every recorded (call, result) sequence is validated by TLC against the
abstract cache and, call by call, against the wire-level protocol table spec/ClientOps.tla (spec/CacheWireTrace.tla; a
difference in the commands sent with the same results is MODEL-DRIFT)."""
from lib import common, tlc, vclock
from drivers import cachelib as CL

PROP = "C05"


def run(rep, tier, kinds, prop, stackkw=None):
    import time
    t0 = common._real_time()
    hs = CL.export_histories(rep, 2, wire_depth=(1 if tier == "quick" else 2))
    nsim, dsim = (40, 30) if tier == "quick" else (3000, 40)
    sims = CL.export_histories(rep, 0, simulate=nsim, sim_depth=dsim, seed=common.seed() + 11)
    sims += CL.random_histories(400 if tier == "quick" else 6000, 40 if tier == "quick" else 60, common.seed())
    if len(hs) < 1000 or len(sims) < nsim // 2:
        raise common.MachineryError(f"vacuous export from Cache.tla: {len(hs)} bfs / {len(sims)} simulated")
    rep.set("t_export_s", round(common._real_time() - t0, 1))
    t0 = common._real_time()
    rep.set("histories_exhaustive_depth2", len(hs))
    rep.set("histories_simulated", len(sims))
    traces = []
    n = common.seed()
    for h in CL.probe_histories():
        for kind in kinds:
            for v in range(4):
                n += 1
                traces.append(CL.replay_history(kind, h, n + v, **(stackkw or {})))
    if "hash" in kinds:
        for h in CL.spread_histories():
            for kind in ("hash3", "client"):
                for v in range(2):
                    n += 1
                    traces.append(CL.replay_history(kind, h, n + v, **(stackkw or {})))
    for h in hs:
        n += 1
        if tier == "quick" and n % 3:
            continue
        traces.append(CL.replay_history(kinds[n % len(kinds)], h, n, **(stackkw or {})))
    for h in sims:
        for kind in kinds:
            n += 1
            traces.append(CL.replay_history(kind, h, n, **(stackkw or {})))
    rep.set("t_replay_s", round(common._real_time() - t0, 1))
    return traces


def report(rep, traces, prop):
    t0 = common._real_time()
    acc, rej, st, tr = tlc.validate_traces("CacheWireTrace", [{"h": t["h"], "ev": t["ev"]} for t in traces], chunk=6000)
    rep.add("traces_validated_against_impl", len(traces))
    rep.add("trace_states", st)
    rep.set("t_validate_s", round(common._real_time() - t0, 1))
    rep.add("calls_whose_wire_commands_were_compared_with_the_model", sum(1 for t in traces for e in t["ev"] if "wcmds" in e))
    for i, lst in sorted(rej.items()):
        t = traces[i]
        for pos, clauses in lst:
            names = [c.strip().strip('"') for c in clauses.strip("{}").split(",")]
            contract = [n for n in names if not n.startswith("DRIFT-")]
            ev = t["ev"][pos - 1] if pos <= len(t["ev"]) else {}
            if not contract:
                rep.model_drift(f"{t['kind']}: {ev.get('op')} sent {ev.get('wcmds')}, spec/ClientOps.tla predicts other commands "
                                f"(results as the abstract cache says)", {"event": {k: v for k, v in ev.items() if k != "conn"}})
                continue
            nrs = "noreply" if ev.get("nr") else "reply"
            rep.violation(f"{prop}/{t['kind']}/{ev.get('op')}/{nrs}/{ev.get('res', {}).get('t')}",
                          f"{t['kind']}: after history {[(e.get('op', 'tick'), e.get('k', e.get('d'))) for e in t['ev'][:pos - 1]]} "
                          f"the call {ev} returned a result the abstract cache does not: {contract}",
                          {"history": t["ev"][:pos], "variant": t["variant"], "kind": t["kind"]})
            break
    return acc, rej


def main(tier, rep):
    vclock.install()
    common.import_repo()
    CL.refinement_everywhere(rep)
    traces = run(rep, tier, ["client", "pooled", "hash"], PROP)
    report(rep, traces, PROP)
    rep.set("evaluations", len(traces))
    rep.set("distinct_nontrivial", len({str([(e.get("op"), e.get("k"), str(e.get("v")), e.get("exp"), e.get("nr"), e.get("cas"), e.get("d"))
                                             for e in t["ev"]]) for t in traces}))
    rep.set("rule", "one execution per exported history (every history of length 2 over the 177-operation alphabet; "
                    "random histories of length 30/40 from TLC -simulate and from a seeded random walk whose cas tokens come from earlier gets results); all are non-trivial (at least two API calls); distinct by the call sequence")
    for t in traces[100::max(1, len(traces) // 3)][:3]:
        rep.sample({"kind": t["kind"], "calls": [(e.get("op", "tick"), e.get("k", ""), e.get("res", {}).get("t", "")) for e in t["ev"][:8]]})
    rep.assumptions += ["lib/refserver.py is the faithful memcached (no eviction; decr does not pad; counters < 2^30)",
                        "2 keys, 3 values (numeric / non-numeric), expiry classes {never, +2s, past, absolute}, ticks 1..3"]
