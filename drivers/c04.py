"""C04 -- what is stored is what is fetched: values and keys survive the round trip.

TLC enumerates the scenario grid of spec/RoundTrip.tla (store op x fetch op x value class x
serializer x key class x key-collection type; 86k points; checks on each that the contract
monitor accepts the right fetch and rejects a miss / wrong value / wrong type / foreign key).  The
harness concretises grid points (quick: a seeded 1/25 sample; thorough: 1/3) against the reference
server, which stores the bytes it actually received: values of every class (protocol text, sizes
around 4096 and its multiples, 1 MiB, str, int, random picklable objects), multi-key fetches over
present and absent keys passed as list / tuple / set / dict view / one-shot iterator, str / bytes /
UTF-8 / high-byte / 250-byte keys with a prefix, reply segmentations.  TLC validates every recorded
store/fetch sequence against spec/RoundTripRule.tla (prefix on the wire and never in results; every
present requested key exactly once under the caller's own key object; value equal and of the same
type)."""
import random
import zlib

from lib import common, fakesock, tlc, vclock

PROP = "C04"


class CustomSerde:
    """the documented JSON-style example: str -> flag 1, everything else -> repr/eval-free encoding"""

    def serialize(self, key, value):
        import json
        if isinstance(value, bytes):
            return value, 0
        if isinstance(value, str):
            return value.encode("utf8"), 1
        return json.dumps(value).encode("ascii"), 2

    def deserialize(self, key, value, flags):
        import json
        if flags == 0:
            return value
        if flags == 1:
            return value.decode("utf8")
        return json.loads(value)


class Flag0Serde:
    """a serializer that does not use the flags at all (always 0) although it transforms every value"""

    def serialize(self, key, value):
        import pickle
        return pickle.dumps(value, protocol=2), 0

    def deserialize(self, key, value, flags):
        import pickle
        return pickle.loads(value)


def rand_obj(rnd, depth=0):
    t = rnd.randrange(10 if depth < 3 else 6)
    if t == 0:
        return rnd.randrange(-10 ** 12, 10 ** 12)
    if t == 1:
        return rnd.random() * 1e6
    if t == 2:
        return "".join(chr(rnd.choice([65, 97, 233, 8364, 0x4E2D, 32, 10])) for _ in range(rnd.randrange(0, 12)))
    if t == 3:
        return bytes(rnd.randrange(256) for _ in range(rnd.randrange(0, 20)))
    if t == 4:
        return rnd.choice([None, True, False])
    if t == 5:
        return 10 ** rnd.randrange(20, 60)
    if t == 6:
        return [rand_obj(rnd, depth + 1) for _ in range(rnd.randrange(0, 4))]
    if t == 7:
        return tuple(rand_obj(rnd, depth + 1) for _ in range(rnd.randrange(0, 4)))
    if t == 8:
        return {str(i): rand_obj(rnd, depth + 1) for i in range(rnd.randrange(0, 4))}
    return frozenset(rnd.randrange(100) for _ in range(rnd.randrange(0, 5)))


def make_value(vc, rnd, serde):
    if vc == "bytes":
        return bytes(rnd.randrange(256) for _ in range(rnd.randrange(1, 40)))
    if vc == "empty":
        return b""
    if vc == "crlf":
        return rnd.choice([b"a\r\nb\r", b"\r\n\r", b"\r", b"x\r", b"\n\r\n\r", b"ab\r\r", b"\r\r\r"])
    if vc == "END":
        return rnd.choice([b"END\r\n", b"END", b"\r\nEND\r\n", b"x\r\nEND\r\nVALUE"])
    if vc == "VALUE":
        return b"VALUE k 0 1\r\nx\r\nEND\r\n"
    if vc.startswith("n"):
        n = int(vc[1:])
        body = bytes((i * 31 + 7) % 256 for i in range(n - 1))
        return body + rnd.choice([b"\r", b"\r", b"\n", b"x"])
    if vc == "big":
        return bytes((i * 131 + 17) % 256 for i in range(1024 * 1024 - 1000))
    if vc == "str":
        v = rnd.choice(["hello", "héllo wörld", "", "€uro\r\nEND\r\n", "漢字" * 50])
        if serde not in ("none", "custom") and rnd.random() < 0.3:
            from drivers.c15_types import StrSub
            return StrSub(v)              # "any value comes back equal and of the same type": subclasses of the native types too
        return v
    if vc == "int":
        v = rnd.choice([0, 7, -5, 12345678901234567890, -(10 ** 30), 10 ** 450])
        if serde not in ("none", "custom") and rnd.random() < 0.2:
            from drivers.c15_types import IntSub
            return IntSub(v)
        return v
    if vc == "obj":
        return rand_obj(rnd)
    raise ValueError(vc)


def expected_form(v, serde, encoding):
    """what a fetch must return for stored value v"""
    if serde == "none" and not isinstance(v, bytes):
        return str(v).encode(encoding)       # documented: str/int come back as their encoded text
    return v


KEYS = {
    "str": lambda i: "key%d" % i, "bytes": lambda i: b"key%d" % i, "utf8": lambda i: "ké€%d" % i,
    "high": lambda i: b"\xc8\xff\x80%d" % i, "max": lambda i: ("%03d" % i) + "m" * (250 - 4 - 3),
}


def keyrec(k):
    return {"isstr": isinstance(k, str), "u": [ord(c) for c in k] if isinstance(k, str) else list(k)}


def run_point(g, n, rnd, force_seg=None):
    from pymemcache.client.base import Client, PooledClient
    from pymemcache.client.hash import HashClient
    from pymemcache import serde as S
    prefix = b"pfx:"
    unicode = g["k"] == "utf8"
    sd = {"none": None, "custom": CustomSerde() if (n % 2 or g["v"] == "big") else Flag0Serde(), "compressed": S.CompressedSerde(min_compress_len=rnd.choice([0, 1, 10, 400])) if (n % 5 or n % 2 == 0 or g["v"] in ("big", "obj", "str", "int")) else
          # ... or wrapping a serializer of the caller's that knows nothing about the wrapper's own flag bit (values below the
          # threshold are stored as that serializer made them, with its flags and nothing else)
          S.CompressedSerde(serde=CustomSerde(), min_compress_len=10 ** 9)}
    sd.update({"p%d" % i: S.PickleSerde(pickle_version=i) for i in range(6)})
    serde = sd[g["serde"]]
    net = fakesock.FakeNet()
    srv = net.add_server(("mc1", 11211))
    kind = ["client", "pooled", "hash"][n % 3]
    kw = dict(socket_module=net, key_prefix=prefix, allow_unicode_keys=unicode, encoding="utf-8", serde=serde,
              default_noreply=bool(n % 2))
    cl = {"client": lambda: Client(("mc1", 11211), **kw), "pooled": lambda: PooledClient(("mc1", 11211), **kw),
          "hash": lambda: HashClient([("mc1", 11211)], **kw)}[kind]()
    seg = ["all", 4096, "rand", "aftercr", "beforelf"][n % 5] if g["v"] not in ("big",) else ["all", 4096][n % 2]
    if force_seg:
        seg = force_seg
    if seg == "rand":
        segf = lambda pending: rnd.choice([1, 2, 3, 7, 100, 4096, pending])
    elif seg == 4096:
        segf = lambda pending: 4096
    else:
        segf = seg
    evs = []
    stored = {}      # vid -> expected value
    vid_of_key = {}
    keymk = KEYS[g["k"]]
    nkeys = 1 if g["fop"] in ("get", "gets", "gat", "gats") and g["sop"] != "set_many" else rnd.choice([2, 3, 5])
    keys = [keymk(i) for i in range(nkeys)]
    if nkeys > 1 and n % 4 == 0 and g["k"] in ("str", "bytes"):
        # a caller key whose own text begins with the configured prefix: a different key from its un-prefixed sibling
        keys.append((prefix.decode() if isinstance(keys[0], str) else prefix) + keys[0])
    vid = 0
    calln = [0]

    def begin():
        calln[0] += 1
        net.begin_call(calln[0], None, segf)

    def last_wire_key():
        for c in reversed(srv.log):
            if "key" in c and c.get("verb") in (b"set", b"add", b"replace", b"cas"):
                return list(c["key"])
        return []

    def store_one(k, v):
        nonlocal vid
        vid += 1
        sop = g["sop"]
        begin()
        ok = None
        if sop == "set":
            ok = cl.set(k, v, noreply=False)
        elif sop == "add":
            ok = cl.add(k, v, noreply=False)
        elif sop == "replace":
            cl.set(k, b"older", noreply=False)
            begin()
            ok = cl.replace(k, v, noreply=False)
        elif sop == "cas":
            cl.set(k, b"older", noreply=False)
            begin()
            _, tok = cl.gets(k)
            begin()
            ok = cl.cas(k, v, tok, noreply=False)
        stored[vid] = expected_form(v, g["serde"], "utf-8")
        vid_of_key[k if not isinstance(k, str) else ("s", k)] = vid
        evs.append({"e": "store", "key": keyrec(k), "vid": vid, "ok": ok is True, "wirekey": last_wire_key()})

    vals = [make_value(g["v"], rnd, g["serde"]) for _ in keys]
    if g["sop"] == "set_many" and g["serde"] not in ("none", "custom") and len(keys) > 1 and n % 2 == 0:
        # a batch of mixed types: every item is stored with its own serializer flags
        vals[0] = rnd.choice([7, "text", 10 ** 30, ("tu", "ple")])
        if len(keys) > 2:
            vals[-1] = rnd.choice([b"raw bytes", 3.5, "more text"])
    if g["sop"] == "set_many":
        begin()
        n0 = len(srv.log)
        failed = cl.set_many(dict(zip(keys, vals)), noreply=False)
        wk = [list(c["key"]) for c in srv.log[n0:] if c.get("verb") == b"set"]
        for i, (k, v) in enumerate(zip(keys, vals)):
            vid += 1
            stored[vid] = expected_form(v, g["serde"], "utf-8")
            vid_of_key[k if not isinstance(k, str) else ("s", k)] = vid
            evs.append({"e": "store", "key": keyrec(k), "vid": vid, "ok": k not in failed,
                        "wirekey": wk[i] if i < len(wk) else []})
    else:
        for k, v in zip(keys, vals):
            store_one(k, v)

    def classify(val, key=None):
        # "id of a stored value it equals": values of different keys may coincide, so the id stored
        # under the requested key is tried first; any other equal value second; 0 if none
        first = vid_of_key.get(key if not isinstance(key, str) else ("s", key))
        order = ([first] if first in stored else []) + [i for i in stored if i != first]
        for i in order:
            ex = stored[i]
            if type(val) is type(ex) and val == ex:
                return [i, True, True]
        for i, ex in stored.items():
            if type(val) is type(ex) and val == ex:
                return [i, True, True]
        for i, ex in stored.items():
            try:
                if val == ex:
                    return [i, True, False]
            except Exception:
                pass
        return [0, False, False]

    # fetch: the stored keys plus absent ones, in a shuffled order, as the requested collection type
    fop = g["fop"]
    miss = [keymk(100 + i) for i in range(2)]
    if fop in ("get", "gets", "gat", "gats"):
        for k in keys + miss[:1]:
            begin()
            dflt = object()
            if fop == "get":
                r = cl.get(k, dflt)
            elif fop == "gat":
                r = cl.gat(k, expire=0, default=dflt)
            elif fop == "gets":
                r = cl.gets(k, default=dflt)
                r = r[0] if isinstance(r, tuple) else r
            else:
                r = cl.gats(k, expire=0, default=dflt)
                r = r[0] if isinstance(r, tuple) else r
            items = [] if r is dflt else [[1] + classify(r, k)]
            evs.append({"e": "fetch", "keys": [keyrec(k)], "items": items})
    else:
        req = keys + miss
        rnd.shuffle(req)
        coll = g["coll"]
        if coll.endswith("dup"):
            # the collection names keys more than once: the same object again, and an equal key built separately
            coll = coll[:-3]
            twin = keys[0]
            twin = "".join(list(twin)) if isinstance(twin, str) else bytes(bytearray(twin))
            req = req + [keys[0], keys[-1], twin]
            rnd.shuffle(req)
        if kind == "hash" and coll in ("iter",):
            coll = "tuple"
        arg = {"list": list, "tuple": tuple, "set": set, "dictview": lambda x: dict.fromkeys(x).keys(),
               "iter": iter}[coll](req)
        order = list(arg) if coll not in ("iter",) else list(req)
        if coll == "iter":
            arg = iter(order)
        begin()
        res = getattr(cl, fop)(arg)
        items = []
        for rk, rv in res.items():
            ki = 0
            for i, q in enumerate(order):
                if q is rk:
                    ki = i + 1
            val = rv[0] if fop == "gets_many" and isinstance(rv, tuple) else rv
            items.append([ki] + classify(val, rk))
        evs.append({"e": "fetch", "keys": [keyrec(k) for k in order], "items": items})
        # the same kind of collection with nothing in it: nothing requested, nothing returned
        empty = {"list": list, "tuple": tuple, "set": set, "dictview": lambda x: dict.fromkeys(x).keys(), "iter": iter}[coll]([])
        begin()
        res0 = getattr(cl, fop)(empty)
        evs.append({"e": "fetch", "keys": [], "items": [[0, 0, False, False] for _ in (res0 or {})]})
    return {"h": {"unicode": unicode, "prefix": list(prefix)}, "ev": evs, "g": g, "kind": kind}


def safe_point(rep, traces, g, n, rnd, force_seg=None):
    try:
        traces.append(run_point(g, n, rnd, force_seg=force_seg))
    except Exception as e:   # noqa -- a raising store/fetch on a faithful server is itself a violation
        import traceback
        tb = traceback.extract_tb(e.__traceback__)
        if tb and tb[-1].filename.startswith(common.VERIF):
            raise     # the harness itself failed: machinery error, not a verdict
        rep.violation(f"C04/{g['sop']}-{g['fop']}/{g['v']}/{g['serde'] if g['serde'] in ('none', 'custom', 'compressed') else 'pickle'}"
                      f"/raises-{type(e).__name__}", f"grid point {g} raised {e!r}", {"grid": g, "error": repr(e)})


def main(tier, rep):
    vclock.install()
    common.import_repo()
    r = tlc.run("RoundTrip", cfg="RoundTrip", workers=16, timeout=1800)
    if r.error:
        raise common.MachineryError(r.error)
    if not r.ok:
        rep.violation("C04/model/" + ",".join(r.invariants_violated), "RoundTripRule monitor sanity failed", tlc.first_error_trace(r))
    grid = [x["g"] for x in r.json_lines("EXP")]
    rep.set("states", r.distinct)
    rep.set("transitions", r.generated)
    rep.set("checker_cmd", r.cmd)
    rep.set("grid_points", len(grid))
    grid.sort(key=lambda g: sorted(g.items()))
    rnd = random.Random(common.seed())
    stride = 25 if tier == "quick" else 3
    traces = []
    nbig = 0
    rnd.shuffle(grid)            # a strided walk over the sorted grid would alias with its fastest-varying dimensions
    grid = grid[: len(grid) // stride]
    for n, g in enumerate(grid):
        if g["v"] == "big":
            nbig += 1
            if nbig % (6 if tier == "quick" else 2):
                continue
        safe_point(rep, traces, g, n, rnd)
    # deterministic edge sweep (never sampled away): byte values whose tail interacts with the CR LF
    # terminator, under every segmentation mode, without a serializer, through every fetch operation
    for fop in ("get", "gets", "get_many", "gets_many", "gat", "gats"):
        for vc in ("crlf", "END", "n4095", "n4096", "n4097", "n8192", "empty"):
            for seg in ("all", 4096, "rand", "aftercr", "beforelf", "bytes"):
                if seg == "bytes" and vc.startswith("n"):
                    continue
                for rep_i in range(3):
                    g = {"sop": "set" if rep_i else "set_many", "fop": fop, "v": vc, "serde": ["none", "custom", "compressed"][rep_i],
                         "k": "bytes", "coll": "list"}
                    safe_point(rep, traces, g, len(traces) * 3, rnd, force_seg=seg)
    # values of 64 KiB and more whose end falls on a piece boundary
    for fop in ("get", "gets", "get_many", "gats"):
        for vc in ("n65536", "n65537", "n69632", "n131072"):
            for seg in ("all", 4096, "aftercr", "beforelf"):
                g = {"sop": "set", "fop": fop, "v": vc, "serde": "none", "k": "bytes", "coll": "list"}
                safe_point(rep, traces, g, len(traces) * 3, rnd, force_seg=seg)
    acc, rej, st, _ = tlc.validate_traces("RoundTripTrace", [{"h": t["h"], "ev": t["ev"]} for t in traces], chunk=2000)
    rep.set("traces_validated_against_impl", len(traces))
    rep.set("trace_states", st)
    for i, lst in sorted(rej.items()):
        t = traces[i]
        pos, clauses = lst[0]
        cl = ",".join(sorted(x.strip().strip('"') for x in clauses.strip("{}").split(",")))
        g = t["g"]
        rep.violation(f"C04/{t['kind']}/{g['fop']}/{g['v']}/{g['serde'] if g['serde'] in ('none', 'custom', 'compressed') else 'pickle'}/{cl}",
                      f"{t['kind']}: grid point {g}: event {t['ev'][pos - 1]} rejected: {cl}", {"grid": g, "events": t["ev"]})
    rep.set("evaluations", len(traces))
    rep.set("distinct_nontrivial", len({str(sorted(t["g"].items())) for t in traces if t["g"]["v"] != "bytes" or t["g"]["fop"].endswith("many")}))
    rep.set("rule", "one store/fetch scenario per sampled grid point; non-trivial = not (plain small bytes value and single-key fetch); distinct by grid point")
    for t in traces[3::max(1, len(traces) // 3)][:3]:
        rep.sample({"grid": t["g"], "events": [{k: (v if k != "key" and k != "keys" else "...") for k, v in e.items()} for e in t["ev"]][:4]})
    rep.assumptions += ["the reference server stores the captured wire block, not the intended value",
                        "value equality and exact type are observed facts required by the contract, not derived by it",
                        "without a serializer str/int values are expected back as their encoded text"]
